/-
  Structural lemmas for C16 (Mathlib-free): how the forward pass of `Model/Xformer.lean`
  treats a row `xs ++ ps` whose tail `ps` is hidden from the first `xs.length` queries.

  Everything here is list bookkeeping; the only arithmetic fact needed is `Inert α`
  ("a hidden key does not change the output of an attention head"), which is proved for `ℝ`
  in `Lemmas/XformerReal.lean`.
-/
import TakVerif.Model.Xformer

namespace Tak.Xformer

/-- hidden keys are inert: an attention head gives the same output on the sub-list of the
    visible keys -/
def Inert (α : Type) [Scalar α] : Prop :=
  ∀ (dHead : Nat) (scale : α) (q : List α) (keys : List (Key α)),
    attnHead dHead scale q keys = attnHead dHead scale q (keys.filter (·.1))

/-- on rows of length `N`, the first `n` queries under mask `m'` see exactly what they see
    under mask `m` among the first `n` keys, and nothing beyond -/
def PrefixMask (c : Bool) (m' m : Option (List Bool)) (n N : Nat) : Prop :=
  ∀ i j, i < n → j < N → allowed c m' i j = (decide (j < n) && allowed c m i j)

theorem append_congr_left {β : Type} {a b J : List β} (h : a = b) : a ++ J = b ++ J := by rw [h]

section
variable {α : Type} [Scalar α]

theorem mhaQuery_prefix (hI : Inert α) {c : Bool} {m' m : Option (List Bool)} {n N : Nat}
    (hm : PrefixMask c m' m n N) (nHead dHead : Nat) (A B : List (List α × List α))
    (hA : A.length = n) (hN : n + B.length = N) (i : Nat) (hi : i < n) (q : List α) :
    mhaQuery nHead dHead c m' (A ++ B) i q = mhaQuery nHead dHead c m A i q := by
  unfold mhaQuery
  congr 1
  funext h
  rw [hI dHead _ _ ((A ++ B).mapIdx _), hI dHead _ _ (A.mapIdx _)]
  congr 1
  rw [List.mapIdx_append, List.filter_append]
  have h2 : List.filter (fun k : Key α => k.1)
      (List.mapIdx (fun j (kv : List α × List α) =>
        ((allowed c m' i (j + A.length), slice dHead h kv.1, slice dHead h kv.2) : Key α)) B) = [] := by
    rw [List.filter_eq_nil_iff]
    intro a ha
    rw [List.mem_mapIdx] at ha
    obtain ⟨j, hj, rfl⟩ := ha
    have := hm i (j + A.length) hi (by omega)
    simp only [this]
    have : ¬ (j + A.length < n) := by omega
    simp [this]
  rw [h2, List.append_nil]
  congr 1
  rw [List.mapIdx_eq_mapIdx_iff]
  intro j hj
  have := hm i j hi (by omega)
  rw [this]
  have : j < n := by omega
  simp [this]

theorem Block.length_attn (B : Block α) (nHead dHead : Nat) (c : Bool) (m : Option (List Bool))
    (xs : List (List α)) : (B.attn nHead dHead c m xs).length = xs.length := by
  simp [Block.attn]

theorem Block.length_apply (B : Block α) (nHead dHead : Nat) (c : Bool) (m : Option (List Bool))
    (xs : List (List α)) : (B.apply nHead dHead c m xs).length = xs.length := by
  simp [Block.apply, Block.length_attn, vadd]

theorem Block.attn_prefix (hI : Inert α) {c : Bool} {m' m : Option (List Bool)} {n N : Nat}
    (hm : PrefixMask c m' m n N) (B : Block α) (nHead dHead : Nat) (xs ps : List (List α))
    (hn : xs.length = n) (hN : n + ps.length = N) :
    ∃ J, J.length = ps.length ∧
      B.attn nHead dHead c m' (xs ++ ps) = B.attn nHead dHead c m xs ++ J := by
  unfold Block.attn
  simp only [List.map_append, List.mapIdx_append]
  refine ⟨_, ?_, append_congr_left ?_⟩
  · simp
  · congr 1
    rw [List.mapIdx_eq_mapIdx_iff]
    intro i hi
    apply mhaQuery_prefix hI hm
    · simpa using hn
    · simpa using hN
    · simpa [hn] using hi

theorem Block.apply_prefix (hI : Inert α) {c : Bool} {m' m : Option (List Bool)} {n N : Nat}
    (hm : PrefixMask c m' m n N) (B : Block α) (nHead dHead : Nat) (xs ps : List (List α))
    (hn : xs.length = n) (hN : n + ps.length = N) :
    ∃ J, J.length = ps.length ∧
      B.apply nHead dHead c m' (xs ++ ps) = B.apply nHead dHead c m xs ++ J := by
  obtain ⟨J, hJ, hEq⟩ := B.attn_prefix hI hm nHead dHead xs ps hn hN
  unfold Block.apply
  rw [hEq, List.zipWith_append (by rw [Block.length_attn]), List.map_append]
  exact ⟨_, by simp [hJ, vadd], rfl⟩

theorem torso_prefix (hI : Inert α) {c : Bool} {m' m : Option (List Bool)} {n N : Nat}
    (hm : PrefixMask c m' m n N) (nHead dHead : Nat) (blocks : List (Block α)) :
    ∀ (xs ps : List (List α)), xs.length = n → n + ps.length = N →
      ∃ J, J.length = ps.length ∧
        torso blocks nHead dHead c m' (xs ++ ps) = torso blocks nHead dHead c m xs ++ J := by
  induction blocks with
  | nil => intro xs ps _ _; exact ⟨ps, rfl, rfl⟩
  | cons B bs ih =>
    intro xs ps hn hN
    obtain ⟨J, hJ, hEq⟩ := B.apply_prefix hI hm nHead dHead xs ps hn hN
    obtain ⟨J', hJ', hEq'⟩ := ih (B.apply nHead dHead c m xs) J
      (by rw [Block.length_apply, hn]) (by omega)
    refine ⟨J', by omega, ?_⟩
    simp only [torso, List.foldl_cons] at hEq' ⊢
    rw [hEq, hEq']

theorem torso_length (nHead dHead : Nat) (c : Bool) (m : Option (List Bool)) (blocks : List (Block α)) :
    ∀ xs : List (List α), (torso blocks nHead dHead c m xs).length = xs.length := by
  induction blocks with
  | nil => intro xs; rfl
  | cons B bs ih =>
    intro xs
    simp only [torso, List.foldl_cons] at ih ⊢
    rw [ih, Block.length_apply]

theorem Model.embed_append (M : Model α) (toks pad : List Nat) :
    ∃ J, J.length = pad.length ∧ M.embed (toks ++ pad) = M.embed toks ++ J := by
  unfold Model.embed
  rw [List.mapIdx_append]
  exact ⟨_, by simp, rfl⟩

theorem Model.length_embed (M : Model α) (toks : List Nat) : (M.embed toks).length = toks.length := by
  simp [Model.embed]

theorem Model.length_hidden (M : Model α) (toks : List Nat) (m : Option (List Bool)) :
    (M.hidden toks m).length = toks.length := by
  simp [Model.hidden, torso_length, Model.length_embed]

/-- the activations of the first `toks.length` tokens do not depend on a hidden tail -/
theorem Model.hidden_prefix (hI : Inert α) (M : Model α) {m' m : Option (List Bool)}
    (toks pad : List Nat) (hm : PrefixMask M.causal m' m toks.length (toks.length + pad.length)) :
    ∃ J, J.length = pad.length ∧ M.hidden (toks ++ pad) m' = M.hidden toks m ++ J := by
  obtain ⟨J0, hJ0, hE⟩ := M.embed_append toks pad
  obtain ⟨J, hJ, hT⟩ := torso_prefix hI hm M.nHead M.dHead M.blocks (M.embed toks) J0
    (M.length_embed toks) (by omega)
  exact ⟨J, by omega, by unfold Model.hidden; rw [hE, hT]⟩

theorem Model.hidden_take (hI : Inert α) (M : Model α) {m' m : Option (List Bool)}
    (toks pad : List Nat) (hm : PrefixMask M.causal m' m toks.length (toks.length + pad.length)) :
    (M.hidden (toks ++ pad) m').take toks.length = M.hidden toks m := by
  obtain ⟨J, _, hE⟩ := M.hidden_prefix hI toks pad hm
  rw [hE, List.take_left' (M.length_hidden toks m)]

theorem forwardText_take (hI : Inert α) (M : Model α) (H : TextHead α) {m' m : Option (List Bool)}
    (toks pad : List Nat) (hm : PrefixMask M.causal m' m toks.length (toks.length + pad.length)) :
    (forwardText M H (toks ++ pad) m').take toks.length = forwardText M H toks m := by
  unfold forwardText
  rw [← List.map_take, M.hidden_take hI toks pad hm]

theorem forwardPV_prefix (hI : Inert α) (M : Model α) (H : PVHead α) {m' m : Option (List Bool)}
    (toks pad : List Nat) (h0 : toks ≠ [])
    (hm : PrefixMask M.causal m' m toks.length (toks.length + pad.length)) :
    forwardPV M H (toks ++ pad) m' = forwardPV M H toks m := by
  obtain ⟨J, _, hE⟩ := M.hidden_prefix hI toks pad hm
  unfold forwardPV PVHead.apply
  rw [hE]
  have hne : M.hidden toks m ≠ [] := by
    intro h
    have := M.length_hidden toks m
    rw [h] at this
    exact h0 (List.eq_nil_of_length_eq_zero this.symm)
  cases hh : M.hidden toks m with
  | nil => exact absurd hh hne
  | cons a as => simp
end

/-! ### the masks -/

theorem getD_padMask (n p j : Nat) (hj : j < n + p) : (padMask n p).getD j false = decide (n ≤ j) := by
  unfold padMask
  rw [List.getD_eq_getElem?_getD]
  by_cases h : j < n
  · rw [List.getElem?_append_left (by simpa using h)]
    simp [h, Nat.not_le.mpr h]
  · rw [List.getElem?_append_right (by simpa using h)]
    have : j - n < p := by omega
    simp [this, Nat.le_of_not_lt h]

/-- the padding mask hides the tail (any attention kind) -/
theorem prefixMask_pad (c : Bool) (n p : Nat) : PrefixMask c (some (padMask n p)) none n (n + p) := by
  intro i j _ hj
  simp only [allowed, getD_padMask n p j hj]
  by_cases h : j < n
  · simp [h, Nat.not_le.mpr h]
  · simp [h, Nat.le_of_not_lt h]

/-- the causal mask hides every later token from the first `n` queries -/
theorem prefixMask_causal (m : Option (List Bool)) (n N : Nat) : PrefixMask true m m n N := by
  intro i j hi _
  simp only [allowed]
  by_cases h : j < n
  · simp [h]
  · have : ¬ j ≤ i := by omega
    simp [h, this]

/-- … whatever the key-padding mask says about the tail (`mt`) -/
theorem prefixMask_causal_ext (m mt : List Bool) (N : Nat) :
    PrefixMask true (some (m ++ mt)) (some m) m.length N := by
  intro i j hi _
  simp only [allowed]
  by_cases h : j < m.length
  · simp [h, List.getD_eq_getElem?_getD, List.getElem?_append_left h]
  · have : ¬ j ≤ i := by omega
    simp [h, this]

/-! ### call sites -/

theorem map_not_replicate (n : Nat) (b : Bool) : (List.replicate n b).map (!·) = List.replicate n (!b) := by
  simp

/-- `~mask` of the row `_encode_batch` writes for a position of `len` tokens in a batch of
    width `w` -/
theorem extraInputs_row (len w : Nat) :
    (List.replicate len true ++ List.replicate (w - len) false).map (!·) = padMask len (w - len) := by
  simp [padMask]

/-- `mask[i, len:] = 1` on a zero row of width `w` -/
theorem server_row (len w : Nat) (h : len ≤ w) :
    (List.replicate w false).take len ++ List.replicate (w - len) true = padMask len (w - len) := by
  simp [padMask, List.take_replicate, Nat.min_eq_left h]

theorem le_foldl_max (rows : List (List Nat)) : ∀ (a : Nat), a ≤ rows.foldl (fun m r => max m r.length) a := by
  induction rows with
  | nil => intro a; exact Nat.le_refl a
  | cons r rs ih =>
    intro a
    simp only [List.foldl_cons]
    exact Nat.le_trans (Nat.le_max_left a r.length) (ih _)

theorem length_le_maxLen (rows : List (List Nat)) (r : List Nat) (hr : r ∈ rows) : r.length ≤ maxLen rows := by
  unfold maxLen
  suffices h : ∀ a, r.length ≤ rows.foldl (fun m r => max m r.length) a from h 0
  induction rows with
  | nil => cases hr
  | cons x xs ih =>
    intro a
    simp only [List.foldl_cons]
    rcases List.mem_cons.mp hr with h | h
    · subst h
      exact Nat.le_trans (Nat.le_max_right a r.length) (le_foldl_max xs _)
    · exact ih h _

/-- (bookkeeping) realise here the equation lemmas that `unfold`/`simp` use in `Props/C16.lean`,
    so that the property file declares property theorems only -/
theorem eqns_realised : True := by
  have _ := @Linear.apply.eq_1
  have _ := @Model.accepts.eq_1
  have _ := @Model.accepts.eq_2
  have _ := @PVHead.apply.eq_1
  have _ := @encodeBatch.eq_1
  have _ := @evaluate.eq_1
  have _ := @extraInputs.eq_1
  have _ := @forwardPV.eq_1
  have _ := @forwardPVBatch.eq_1
  have _ := @forwardPVBatch.eq_2
  have _ := @serverBatch.eq_1
  have _ := @widenRow.eq_1
  trivial

end Tak.Xformer

/-
  The induction over the `while True` loop of `play_one_game` (model: `playFrom`):
  fuel sufficiency, the ply invariant, and `GameOK` of the produced log.
-/
import TakVerif.Lemmas.SelfPlay

namespace Tak
namespace SelfPlay

open Transcript Trace

variable {cfg : SelfPlayConfig} {eps : Rat} {outcome : Pos → Option (Option Color)}

/-- the answers consumed by the rest of the game are OK when those of the whole game are -/
theorem answersOK_tail {fuel : Nat} {oracle : Nat → Answer} {p : Pos} {c : Move × Pos}
    (hply : ¬ p.ply > cfg.plyLimit) (hlive : outcome p = none)
    (hres : ¬ (oracle 0).v0.abs ≥ cfg.threshold)
    (hc : (oracle 0).children[(oracle 0).chosen]? = some c)
    (h : AnswersOKFrom cfg eps outcome (fuel + 1) oracle p) :
    AnswerOK eps p (oracle 0) ∧ AnswersOKFrom cfg eps outcome fuel (tail oracle) c.2 := by
  unfold AnswersOKFrom at h
  simp only [playFrom, if_neg hply, hlive, if_neg hres, hc] at h
  constructor
  · exact h 0 (by simp)
  · intro i hi
    have := h (i + 1) (by simpa using hi)
    simpa [tail] using this

/-- **Main induction.**  With enough fuel, a well-formed start and OK answers along the way,
    the loop leaves normally and its log is an OK game from the start position. -/
theorem gameOK_playFrom (h01 : MoveRefinesRules) :
    ∀ (fuel : Nat) (oracle : Nat → Answer) (p : Pos), p.WF → 1 ≤ fuel →
      cfg.plyLimit + 2 ≤ (fuel : Int) + p.ply →
      AnswersOKFrom cfg eps outcome fuel oracle p →
      (playFrom cfg outcome fuel oracle p).stop.normal ∧
      GameOK p cfg eps outcome (playFrom cfg outcome fuel oracle p).log
        (traceOf oracle (playFrom cfg outcome fuel oracle p).log.len)
        (playFrom cfg outcome fuel oracle p).log.results := by
  intro fuel
  induction fuel with
  | zero => intro _ _ _ h; omega
  | succ fuel ih =>
    intro oracle p hwf _ hfuel hok
    by_cases hply : p.ply > cfg.plyLimit
    · simp only [playFrom, if_pos hply]
      exact ⟨trivial, gameOK_cutoff oracle hply⟩
    · cases hlive : outcome p with
      | some w =>
        simp only [playFrom, if_neg hply, hlive]
        exact ⟨trivial, gameOK_decided oracle hply hlive⟩
      | none =>
        by_cases hres : (oracle 0).v0.abs ≥ cfg.threshold
        · have ha : AnswerOK eps p (oracle 0) := by
            have := hok 0 (by simp [playFrom, if_neg hply, hlive, if_pos hres])
            simpa [playFrom, if_neg hply, hlive, if_pos hres] using this
          simp only [playFrom, if_neg hply, hlive, if_pos hres]
          exact ⟨trivial, gameOK_resigned h01 oracle hwf ha hply hlive hres⟩
        · cases hc : (oracle 0).children[(oracle 0).chosen]? with
          | none =>
            exfalso
            have ha : AnswerOK eps p (oracle 0) := by
              have := hok 0 (by simp [playFrom, if_neg hply, hlive, if_neg hres, hc])
              simpa [playFrom, if_neg hply, hlive, if_neg hres, hc] using this
            have := ha.chosen
            simp at hc
            omega
          | some c =>
            obtain ⟨ha, hrest⟩ := answersOK_tail hply hlive hres hc hok
            obtain ⟨hcm, -, -⟩ := child_of_getElem? hc
            have hmv := ha.children c hcm
            have hcply := move_ok_ply hmv
            have hcwf : c.2.WF := by
              rw [(legal_of_ok h01 hwf hmv).2]
              exact result_WF hwf _
            have := ih (tail oracle) c.2 hcwf (by omega) (by omega) hrest
            simp only [playFrom, if_neg hply, hlive, if_neg hres, hc]
            refine ⟨this.1, ?_⟩
            rw [len_push]
            exact gameOK_push h01 oracle hwf ha hply hlive hres hc this.2

/-! ### fuel -/

/-- the loop only needs `ply_limit + 2 - ply` iterations: it never runs out of fuel when every
    consumed answer names a child that `Impl.move` produced (no appeal to C01) -/
theorem stop_ne_outOfFuel :
    ∀ (fuel : Nat) (oracle : Nat → Answer) (p : Pos), 1 ≤ fuel →
      cfg.plyLimit + 2 ≤ (fuel : Int) + p.ply →
      AnswersOKFrom cfg eps outcome fuel oracle p →
      (playFrom cfg outcome fuel oracle p).stop.normal := by
  intro fuel
  induction fuel with
  | zero => intro _ _ h; omega
  | succ fuel ih =>
    intro oracle p _ hfuel hok
    by_cases hply : p.ply > cfg.plyLimit
    · simp only [playFrom, if_pos hply]; trivial
    · cases hlive : outcome p with
      | some w => simp only [playFrom, if_neg hply, hlive]; trivial
      | none =>
        by_cases hres : (oracle 0).v0.abs ≥ cfg.threshold
        · simp only [playFrom, if_neg hply, hlive, if_pos hres]; trivial
        · cases hc : (oracle 0).children[(oracle 0).chosen]? with
          | none =>
            exfalso
            have ha : AnswerOK eps p (oracle 0) := by
              have := hok 0 (by simp [playFrom, if_neg hply, hlive, if_neg hres, hc])
              simpa [playFrom, if_neg hply, hlive, if_neg hres, hc] using this
            have := ha.chosen
            simp at hc
            omega
          | some c =>
            obtain ⟨ha, hrest⟩ := answersOK_tail hply hlive hres hc hok
            obtain ⟨hcm, -, -⟩ := child_of_getElem? hc
            have hcply := move_ok_ply (ha.children c hcm)
            have := ih (tail oracle) c.2 (by omega) (by omega) hrest
            simpa only [playFrom, if_neg hply, hlive, if_neg hres, hc] using this

/-- once the loop leaves normally, more fuel changes nothing -/
theorem playFrom_fuel_mono :
    ∀ (fuel : Nat) (oracle : Nat → Answer) (p : Pos),
      (playFrom cfg outcome fuel oracle p).stop ≠ .outOfFuel →
      ∀ k, playFrom cfg outcome (fuel + k) oracle p = playFrom cfg outcome fuel oracle p := by
  intro fuel
  induction fuel with
  | zero => intro oracle p h; simp [playFrom] at h
  | succ fuel ih =>
    intro oracle p h k
    have e : fuel + 1 + k = (fuel + k) + 1 := by omega
    rw [e]
    by_cases hply : p.ply > cfg.plyLimit
    · simp only [playFrom, if_pos hply]
    · cases hlive : outcome p with
      | some w => simp only [playFrom, if_neg hply, hlive]
      | none =>
        by_cases hres : (oracle 0).v0.abs ≥ cfg.threshold
        · simp only [playFrom, if_neg hply, hlive, if_pos hres]
        · cases hc : (oracle 0).children[(oracle 0).chosen]? with
          | none => simp only [playFrom, if_neg hply, hlive, if_neg hres, hc]
          | some c =>
            simp only [playFrom, if_neg hply, hlive, if_neg hres, hc] at h ⊢
            rw [ih (tail oracle) c.2 h k]


/-! ### facts that need no hypothesis on the engine -/

/-- the four lists of the log have equal length -/
theorem lengths_playFrom :
    ∀ (fuel : Nat) (oracle : Nat → Answer) (p : Pos),
      (playFrom cfg outcome fuel oracle p).log.moves.length = (playFrom cfg outcome fuel oracle p).log.len ∧
      (playFrom cfg outcome fuel oracle p).log.probs.length = (playFrom cfg outcome fuel oracle p).log.len ∧
      (playFrom cfg outcome fuel oracle p).log.values.length = (playFrom cfg outcome fuel oracle p).log.len := by
  intro fuel
  induction fuel with
  | zero => intro _ _; simp [playFrom]
  | succ fuel ih =>
    intro oracle p
    by_cases hply : p.ply > cfg.plyLimit
    · simp [playFrom, if_pos hply]
    · cases hlive : outcome p with
      | some w => simp [playFrom, if_neg hply, hlive]
      | none =>
        by_cases hres : (oracle 0).v0.abs ≥ cfg.threshold
        · simp [playFrom, if_neg hply, hlive, if_pos hres]
        · cases hc : (oracle 0).children[(oracle 0).chosen]? with
          | none => simp [playFrom, if_neg hply, hlive, if_neg hres, hc]
          | some c =>
            have := ih (tail oracle) c.2
            simp only [playFrom, if_neg hply, hlive, if_neg hres, hc]
            simp [this]

/-- entry `i` of the log is what answer `i` of the stream said -/
theorem records_playFrom :
    ∀ (fuel : Nat) (oracle : Nat → Answer) (p : Pos) (i : Nat),
      i < (playFrom cfg outcome fuel oracle p).log.len →
      (playFrom cfg outcome fuel oracle p).log.cands i = (oracle i).children.map (·.1) ∧
      (playFrom cfg outcome fuel oracle p).log.dist i = (oracle i).probs ∧
      (playFrom cfg outcome fuel oracle p).log.value i = (oracle i).value / ((oracle i).sims : Rat) := by
  intro fuel
  induction fuel with
  | zero => intro _ _ i h; simp [playFrom] at h
  | succ fuel ih =>
    intro oracle p i
    by_cases hply : p.ply > cfg.plyLimit
    · simp [playFrom, if_pos hply]
    · cases hlive : outcome p with
      | some w => simp [playFrom, if_neg hply, hlive]
      | none =>
        by_cases hres : (oracle 0).v0.abs ≥ cfg.threshold
        · simp only [playFrom, if_neg hply, hlive, if_pos hres]
          intro hi
          have : i = 0 := by simp at hi; omega
          subst this
          simp
        · cases hc : (oracle 0).children[(oracle 0).chosen]? with
          | none =>
            simp only [playFrom, if_neg hply, hlive, if_neg hres, hc]
            intro hi
            have : i = 0 := by simp at hi; omega
            subst this
            simp
          | some c =>
            simp only [playFrom, if_neg hply, hlive, if_neg hres, hc]
            intro hi
            cases i with
            | zero => simp
            | succ j =>
              have := ih (tail oracle) c.2 j (by simpa using hi)
              simpa [tail] using this

/-- `Transcript.results`, entry by entry, for any transcript -/
theorem results_getD (t : Transcript) (i : Nat) (h : i < t.len) :
    t.results.getD i 0 = labelFor t.result (t.pos i) := by
  unfold Transcript.results labelFor Transcript.pos
  unfold Transcript.len at h
  cases t.result with
  | none => simp [List.getD_eq_getElem?_getD, h]
  | some c => simp [List.getD_eq_getElem?_getD, h]

theorem fuelFor_enough (cfg : SelfPlayConfig) :
    1 ≤ fuelFor cfg ∧ cfg.plyLimit + 2 ≤ (fuelFor cfg : Int) + (initialPos cfg.size).ply := by
  unfold fuelFor initialPos Pos.fromConfig
  constructor
  · omega
  · simp only
    omega

end SelfPlay
end Tak

/-
  From the integer cells of the flood fill to the declarative `Spec.Chain` / `Spec.Road`.
-/
import TakVerif.Lemmas.Walk
import TakVerif.Spec.Road

namespace Tak.Walk
open Impl Spec

variable (p : Pos) (c : Color)

/-- a board square as the cell the loop handles -/
def cast (a : Nat × Nat) : Cell := ((a.1 : Int), (a.2 : Int))

theorem ok_cast (a : Nat × Nat) : ok p c (cast a) = true ↔ RoadSq p c a.1 a.2 := by
  obtain ⟨x, y⟩ := a
  unfold ok RoadSq Spec.top isRoad topColorNe Pos.inBounds Pos.atI cast
  simp only [Int.toNat_natCast]
  cases hs : p.sq x y with
  | nil => simp
  | cons pc rest =>
    obtain ⟨col, k⟩ := pc
    cases col <;> cases k <;> cases c <;> simp [Kind.isRoad] <;> omega

theorem ok_is_cast {j : Cell} (hj : ok p c j = true) : ∃ a, j = cast a := by
  obtain ⟨x, y⟩ := j
  unfold ok Pos.inBounds at hj
  simp only [Bool.and_eq_true, decide_eq_true_eq] at hj
  refine ⟨(x.toNat, y.toNat), ?_⟩
  unfold cast
  ext <;> simp <;> omega

theorem cast_inj {a b : Nat × Nat} (h : cast a = cast b) : a = b := by
  obtain ⟨a1, a2⟩ := a
  obtain ⟨b1, b2⟩ := b
  unfold cast at h
  simp only [Prod.mk.injEq] at h
  ext <;> simp <;> omega

theorem pushed_cast (a b : Nat × Nat) : cast b ∈ pushed (cast a).1 (cast a).2 ↔ Adj a b := by
  obtain ⟨a1, a2⟩ := a
  obtain ⟨b1, b2⟩ := b
  unfold pushed cast Adj
  simp only [List.mem_cons, Prod.mk.injEq, List.not_mem_nil, or_false]
  omega

theorem linked_snoc : ∀ (l : List (Nat × Nat)) (a b : Nat × Nat),
    Linked l → l.getLast? = some a → Adj a b → Linked (l ++ [b])
  | [], _, _, _, h, _ => by simp at h
  | [x], a, b, _, h, hab => by
    simp at h; subst h; exact ⟨hab, trivial⟩
  | x :: y :: rest, a, b, hl, h, hab => by
    have h' : (y :: rest).getLast? = some a := by
      rw [List.getLast?_cons_cons] at h; exact h
    exact ⟨hl.1, linked_snoc (y :: rest) a b hl.2 h' hab⟩

/-- every reachable cell is the end of a chain that starts at a seed -/
theorem reach_chain (seeds : List Cell) {j : Cell} (hr : Reach p c seeds j) :
    ∃ path a b, Chain p c path a b ∧ cast a ∈ seeds ∧ cast b = j := by
  induction hr with
  | @seed j hs hok =>
    obtain ⟨a, rfl⟩ := ok_is_cast p c hok
    refine ⟨[a], a, a, ⟨?_, trivial, rfl, rfl⟩, hs, rfl⟩
    intro cell hc
    simp only [List.mem_singleton] at hc
    subst hc
    exact (ok_cast p c _).1 hok
  | @step i j _ hji hok ih =>
    obtain ⟨path, a, b, ⟨hroad, hlink, hhead, hlast⟩, hseed, hbi⟩ := ih
    obtain ⟨b', rfl⟩ := ok_is_cast p c hok
    subst hbi
    have hadj : Adj b b' := (pushed_cast b b').1 hji
    refine ⟨path ++ [b'], a, b', ⟨?_, linked_snoc path b b' hlink hlast hadj, ?_, ?_⟩, hseed, rfl⟩
    · intro cell hc
      rcases List.mem_append.1 hc with hc | hc
      · exact hroad cell hc
      · simp only [List.mem_singleton] at hc
        subst hc
        exact (ok_cast p c _).1 hok
    · cases path with
      | nil => simp at hhead
      | cons x xs => simpa using hhead
    · simp

/-- every square of a chain that starts at a reachable cell is reachable -/
theorem chain_reach (seeds : List Cell) : ∀ (rest : List (Nat × Nat)) (a b : Nat × Nat),
    Reach p c seeds (cast a) → (∀ cell ∈ rest, RoadSq p c cell.1 cell.2) →
    Linked (a :: rest) → (a :: rest).getLast? = some b → Reach p c seeds (cast b)
  | [], a, b, hr, _, _, hl => by
    simp at hl; subst hl; exact hr
  | x :: rest, a, b, hr, hroad, hlink, hl => by
    have hx : Reach p c seeds (cast x) :=
      Reach.step hr ((pushed_cast a x).2 hlink.1)
        ((ok_cast p c x).2 (hroad x (List.mem_cons_self ..)))
    have hl' : (x :: rest).getLast? = some b := by
      rw [List.getLast?_cons_cons] at hl; exact hl
    exact chain_reach seeds rest x b hx (fun cell hc => hroad cell (List.mem_cons_of_mem _ hc))
      hlink.2 hl'

theorem cast_mem_left (a : Nat × Nat) : cast a ∈ leftSeeds p ↔ a.1 = 0 ∧ a.2 < p.size := by
  obtain ⟨x, y⟩ := a
  unfold cast leftSeeds
  simp only [List.mem_map, List.mem_range, Prod.mk.injEq]
  constructor
  · rintro ⟨i, hi, h0, hy⟩; omega
  · rintro ⟨hx, hy⟩; exact ⟨y, hy, by omega, rfl⟩

theorem cast_mem_top (a : Nat × Nat) : cast a ∈ topSeeds p ↔ a.2 = 0 ∧ a.1 < p.size := by
  obtain ⟨x, y⟩ := a
  unfold cast topSeeds
  simp only [List.mem_map, List.mem_range, Prod.mk.injEq]
  constructor
  · rintro ⟨i, hi, hx, h0⟩; omega
  · rintro ⟨hy, hx⟩; exact ⟨x, hx, rfl, by omega⟩

theorem goal_cast_h (b : Nat × Nat) : goal p true (cast b) = true ↔ b.1 + 1 = p.size := by
  unfold goal cast; simp; omega

theorem goal_cast_v (b : Nat × Nat) : goal p false (cast b) = true ↔ b.2 + 1 = p.size := by
  unfold goal cast; simp; omega

theorem chain_head_road {path : List (Nat × Nat)} {a b : Nat × Nat} (hc : Chain p c path a b) :
    RoadSq p c a.1 a.2 := by
  obtain ⟨hroad, _, hhead, _⟩ := hc
  cases path with
  | nil => simp at hhead
  | cons x xs =>
    simp at hhead; subst hhead
    exact hroad _ (List.mem_cons_self ..)

/-- the horizontal fill from the left column answers: some chain joins column 0 to column size-1 -/
theorem walk_left_iff :
    walkFrom p (leftSeeds p) c true = true ↔
      ∃ path a b, Chain p c path a b ∧ a.1 = 0 ∧ b.1 + 1 = p.size := by
  rw [walkFrom_iff]
  constructor
  · rintro ⟨j, hr, hg⟩
    obtain ⟨path, a, b, hc, hseed, rfl⟩ := reach_chain p c _ hr
    exact ⟨path, a, b, hc, ((cast_mem_left p a).1 hseed).1, (goal_cast_h p b).1 hg⟩
  · rintro ⟨path, a, b, hc, ha, hb⟩
    have hra := chain_head_road p c hc
    obtain ⟨hroad, hlink, hhead, hlast⟩ := hc
    cases path with
    | nil => simp at hhead
    | cons x xs =>
      simp at hhead; subst hhead
      have hseed : Reach p c (leftSeeds p) (cast x) :=
        Reach.seed ((cast_mem_left p x).2 ⟨ha, hra.2.1⟩) ((ok_cast p c x).2 hra)
      exact ⟨cast b, chain_reach p c _ xs x b hseed
        (fun cell hc => hroad cell (List.mem_cons_of_mem _ hc)) hlink hlast, (goal_cast_h p b).2 hb⟩

/-- the vertical fill from row 0 answers: some chain joins row 0 to row size-1 -/
theorem walk_top_iff :
    walkFrom p (topSeeds p) c false = true ↔
      ∃ path a b, Chain p c path a b ∧ a.2 = 0 ∧ b.2 + 1 = p.size := by
  rw [walkFrom_iff]
  constructor
  · rintro ⟨j, hr, hg⟩
    obtain ⟨path, a, b, hc, hseed, rfl⟩ := reach_chain p c _ hr
    exact ⟨path, a, b, hc, ((cast_mem_top p a).1 hseed).1, (goal_cast_v p b).1 hg⟩
  · rintro ⟨path, a, b, hc, ha, hb⟩
    have hra := chain_head_road p c hc
    obtain ⟨hroad, hlink, hhead, hlast⟩ := hc
    cases path with
    | nil => simp at hhead
    | cons x xs =>
      simp at hhead; subst hhead
      have hseed : Reach p c (topSeeds p) (cast x) :=
        Reach.seed ((cast_mem_top p x).2 ⟨ha, hra.1⟩) ((ok_cast p c x).2 hra)
      exact ⟨cast b, chain_reach p c _ xs x b hseed
        (fun cell hc => hroad cell (List.mem_cons_of_mem _ hc)) hlink hlast, (goal_cast_v p b).2 hb⟩

/-- the two fills of `has_road` for one colour, together, answer `Road` -/
theorem walks_iff_road :
    (walkFrom p (leftSeeds p) c true || walkFrom p (topSeeds p) c false) = true ↔ Road p c := by
  rw [Bool.or_eq_true, walk_left_iff, walk_top_iff]
  unfold Road
  constructor
  · rintro (⟨path, a, b, hc, h1, h2⟩ | ⟨path, a, b, hc, h1, h2⟩)
    · exact ⟨path, a, b, hc, Or.inl ⟨h1, h2⟩⟩
    · exact ⟨path, a, b, hc, Or.inr ⟨h1, h2⟩⟩
  · rintro ⟨path, a, b, hc, (⟨h1, h2⟩ | ⟨h1, h2⟩)⟩
    · exact Or.inl ⟨path, a, b, hc, h1, h2⟩
    · exact Or.inr ⟨path, a, b, hc, h1, h2⟩

/-! ### flat counts and the end-of-game conditions -/

theorem foldl_flatStep (b : List Stack) (w k : Nat) :
    b.foldl flatStep (w, k) =
      (w + b.countP (fun sq => sq.head? == some ⟨.white, .flat⟩),
       k + b.countP (fun sq => sq.head? == some ⟨.black, .flat⟩)) := by
  induction b generalizing w k with
  | nil => simp
  | cons sq b ih =>
    rw [List.foldl_cons]
    cases sq with
    | nil => simp [flatStep, ih]
    | cons pc rest =>
      obtain ⟨col, kd⟩ := pc
      cases col <;> cases kd <;> simp [flatStep, ih] <;> omega

theorem flatCounts_eq : flatCounts p = (topFlats p .white, topFlats p .black) := by
  unfold flatCounts topFlats
  rw [foldl_flatStep]; simp

theorem flatsWinner_eq : flatsWinner p = flatResult p := by
  unfold flatsWinner flatResult
  rw [flatCounts_eq]

theorem boardFull_iff : boardFull p = true ↔ BoardFull p := by
  unfold boardFull BoardFull
  simp [List.all_eq_true]

theorem someReserveEmpty_iff :
    someReserveEmpty p = true ↔ ReserveEmpty p .white ∨ ReserveEmpty p .black := by
  unfold someReserveEmpty ReserveEmpty Pos.stones Pos.caps
  simp

theorem toMove_flip_eq : p.toMove.flip = justMoved p := by
  unfold Pos.toMove justMoved
  split <;> rfl

end Tak.Walk

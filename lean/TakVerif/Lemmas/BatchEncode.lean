/-
  Helper lemmas for C12 (`encode_games`): the growing-width loop of `_encode_batch` pads every
  row with zeros to the widest row and masks exactly the real tokens; the scatter loop of
  `Transcript.logits`.
-/
import TakVerif.Model.Batch
import TakVerif.Spec.Batch

namespace Tak
namespace BatchLemmas
open Tak.Batch Tak.BatchSpec

theorem maxLen_snoc (pre : List (List Nat)) (e : List Nat) :
    maxLen (pre ++ [e]) = max (maxLen pre) e.length := by
  simp [maxLen, List.foldl_append]

theorem foldl_max_ge (rows : List (List Nat)) (m : Nat) :
    m ≤ rows.foldl (fun m r => max m r.length) m ∧
    ∀ r ∈ rows, r.length ≤ rows.foldl (fun m r => max m r.length) m := by
  induction rows generalizing m with
  | nil => simp
  | cons a rows ih =>
    simp only [List.foldl_cons, List.mem_cons, forall_eq_or_imp]
    have h := ih (max m a.length)
    refine ⟨by omega, by omega, h.2⟩

theorem le_maxLen {rows : List (List Nat)} {r : List Nat} (h : r ∈ rows) : r.length ≤ maxLen rows :=
  (foldl_max_ge rows 0).2 r h

theorem writePrefix_pad (w w' : Nat) (r : List Nat) (h1 : r.length ≤ w) (h2 : w ≤ w') :
    writePrefix (List.replicate w' 0) (padTo w r) = padTo w' r := by
  simp only [writePrefix, padTo, List.length_append, List.length_replicate, List.drop_replicate,
    List.append_assoc, List.replicate_append_replicate]
  congr 2; omega

theorem writePrefix_zeros (w w' : Nat) (h2 : w ≤ w') :
    writePrefix (List.replicate w' 0) (List.replicate w (0 : Nat)) = List.replicate w' 0 := by
  simp only [writePrefix, List.length_replicate, List.drop_replicate, List.replicate_append_replicate]
  congr 1; omega

theorem writePrefix_new (w : Nat) (e : List Nat) (_h : e.length ≤ w) :
    writePrefix (List.replicate w 0) e = padTo w e := by
  simp [writePrefix, padTo]

theorem modify_append_cons {β : Type} (A : List β) (z : β) (Z : List β) (g : β → β) :
    (A ++ z :: Z).modify A.length g = A ++ g z :: Z := by
  induction A with
  | nil => simp
  | cons a A ih => simp [ih]

theorem set_append_cons {β : Type} (A : List β) (z y : β) (Z : List β) :
    (A ++ z :: Z).set A.length y = A ++ y :: Z := by
  induction A with
  | nil => simp
  | cons a A ih => simp [ih]

theorem ebLoop_spec (pre rest : List (List Nat)) :
    ebLoop ⟨pre.map (padTo (maxLen pre)) ++ List.replicate rest.length (List.replicate (maxLen pre) 0),
            maxLen pre, pre.map (·.length) ++ List.replicate rest.length 0⟩ pre.length rest =
      ⟨(pre ++ rest).map (padTo (maxLen (pre ++ rest))), maxLen (pre ++ rest),
       (pre ++ rest).map (·.length)⟩ := by
  induction rest generalizing pre with
  | nil => simp [ebLoop]
  | cons e rest ih =>
    have key : ebStep ⟨pre.map (padTo (maxLen pre)) ++
          List.replicate (e :: rest).length (List.replicate (maxLen pre) 0),
          maxLen pre, pre.map (·.length) ++ List.replicate (e :: rest).length 0⟩ pre.length e =
        ⟨(pre ++ [e]).map (padTo (maxLen (pre ++ [e]))) ++
          List.replicate rest.length (List.replicate (maxLen (pre ++ [e])) 0),
          maxLen (pre ++ [e]), (pre ++ [e]).map (·.length) ++ List.replicate rest.length 0⟩ := by
      have hmax : maxLen (pre ++ [e]) = max (maxLen pre) e.length := maxLen_snoc pre e
      have hgrow : (if e.length > maxLen pre then
            ({ out := (pre.map (padTo (maxLen pre)) ++
                List.replicate (e :: rest).length (List.replicate (maxLen pre) 0)).map
                  (fun row => writePrefix (List.replicate e.length 0) row),
               width := e.length,
               lens := pre.map (·.length) ++ List.replicate (e :: rest).length 0 } : EBState)
          else ⟨pre.map (padTo (maxLen pre)) ++
                List.replicate (e :: rest).length (List.replicate (maxLen pre) 0),
                maxLen pre, pre.map (·.length) ++ List.replicate (e :: rest).length 0⟩) =
          ⟨pre.map (padTo (maxLen (pre ++ [e]))) ++
             List.replicate (rest.length + 1) (List.replicate (maxLen (pre ++ [e])) 0),
           maxLen (pre ++ [e]), pre.map (·.length) ++ List.replicate (rest.length + 1) 0⟩ := by
        by_cases hg : e.length > maxLen pre
        · have hw : maxLen (pre ++ [e]) = e.length := by rw [hmax]; omega
          rw [if_pos hg, hw]
          simp only [List.map_append, List.map_map, List.map_replicate, List.length_cons]
          congr 2
          · apply List.map_congr_left
            intro r hr
            exact writePrefix_pad _ _ r (le_maxLen hr) (by omega)
          · rw [writePrefix_zeros _ _ (by omega)]
        · have hw : maxLen (pre ++ [e]) = maxLen pre := by rw [hmax]; omega
          rw [if_neg hg, hw]; rfl
      unfold ebStep
      simp only [] 
      rw [hgrow]
      simp only [List.replicate_succ]
      have h1 : pre.length = (pre.map (padTo (maxLen (pre ++ [e])))).length := by simp
      have h2 : pre.length = (pre.map (·.length)).length := by simp
      congr 1
      · conv => lhs; rw [h1]
        rw [modify_append_cons, writePrefix_new _ _ (by rw [hmax]; omega)]
        simp
      · conv => lhs; rw [h2]
        rw [set_append_cons]
        simp
    have := ih (pre ++ [e])
    simp only [List.length_append, List.length_singleton, List.append_assoc, List.singleton_append] at this
    rw [ebLoop, key, this]

theorem encodeBatch_eq (rows : List (List Nat)) :
    encodeBatch rows = (rows.map (padTo (maxLen rows)), rows.map (maskTo (maxLen rows))) := by
  have h := ebLoop_spec [] rows
  simp only [List.map_nil, List.nil_append, List.length_nil] at h
  have h0 : maxLen [] = 0 := rfl
  rw [h0] at h
  simp only [List.replicate_zero] at h
  unfold encodeBatch
  simp only [h, List.map_map]
  congr 1
  apply List.map_congr_left
  intro r hr
  simp only [Function.comp, writePrefix, maskTo, List.length_replicate, List.drop_replicate]

theorem key_padRow (t pad : List Nat) (tg : List Rat) :
    key ⟨(padRow t pad).1, (padRow t pad).2, tg⟩ = t := by
  simp only [key, padRow]
  rw [List.zip_append (by simp)]
  simp only [List.filter_append, List.map_append]
  have h1 : ∀ (t : List Nat), ((t.zip (List.replicate t.length true)).filter (·.2)).map (·.1) = t := by
    intro t; induction t with
    | nil => rfl
    | cons a t ih => simp [List.replicate_succ, ih]
  have h2 : ∀ (t : List Nat), ((t.zip (List.replicate t.length false)).filter (·.2)) = [] := by
    intro t; induction t with
    | nil => rfl
    | cons a t ih => simp [List.replicate_succ, ih]
  rw [h1, h2]; simp


/-! ### `Transcript.logits` -/

theorem allSome_eq_some {α : Type} {l : List (Option α)} {r : List α} :
    allSome l = some r ↔ l = r.map some := by
  induction l generalizing r with
  | nil => cases r <;> simp [allSome]
  | cons a l ih =>
    cases a with
    | none => cases r <;> simp [allSome]
    | some a =>
      cases r with
      | nil => simp [allSome]
      | cons b r =>
        simp only [allSome, Option.map_eq_some_iff, List.cons.injEq, List.map_cons, Option.some.injEq]
        constructor
        · rintro ⟨r', h1, h2, h3⟩
          subst h2 h3
          exact ⟨rfl, ih.mp h1⟩
        · rintro ⟨rfl, h⟩
          exact ⟨r, ih.mpr h, rfl, rfl⟩

theorem allSome_isSome {α : Type} {l : List (Option α)} (h : ∀ x ∈ l, x.isSome) :
    ∃ r, allSome l = some r := by
  induction l with
  | nil => exact ⟨[], rfl⟩
  | cons a l ih =>
    obtain ⟨r, hr⟩ := ih (fun x hx => h x (by simp [hx]))
    cases a with
    | none => simpa using h none (by simp)
    | some a => exact ⟨a :: r, by simp [allSome, hr]⟩

theorem allSome_getElem {α : Type} {l : List (Option α)} {r : List α} (h : allSome l = some r) :
    r.length = l.length ∧ ∀ i (hi : i < l.length), l[i] = some (r[i]'(by
      have := allSome_eq_some.mp h; rw [this] at hi; simpa using hi)) := by
  have := allSome_eq_some.mp h
  subst this
  simp

theorem lastIdxOf_getElem? {m : Move} : ∀ {l : List Move} {i : Nat},
    Gen.lastIdxOf m l = some i → l[i]? = some m
  | [], _, h => by simp [Gen.lastIdxOf] at h
  | a :: t, i, h => by
    unfold Gen.lastIdxOf at h
    split at h
    · rename_i j hj
      have := lastIdxOf_getElem? hj
      cases h; simpa using this
    · split at h
      · rename_i hn ha
        cases h; simp [ha]
      · cases h

theorem encodeIn_inj {table : List Move} {m m' : Move} {c : Nat}
    (h : encodeIn table m = some c) (h' : encodeIn table m' = some c) : m = m' := by
  have g1 := lastIdxOf_getElem? h
  have g2 := lastIdxOf_getElem? h'
  rw [g1] at g2
  exact Option.some.inj g2

/-- the scatter loop on candidates without repetition, all in the table, all columns inside the row -/
theorem scatter_spec (table : List Move) (W : Nat) (probs : List Rat) :
    ∀ (ms : List Move) (j : Nat) (row : List Rat),
      row.length = W → ms.Nodup →
      (∀ m ∈ ms, ∃ c, encodeIn table m = some c ∧ c < W) →
      j + ms.length ≤ probs.length →
      ∃ row', scatter table W probs ms j row = some row' ∧ row'.length = W ∧
        (∀ i (hi : i < ms.length), ∀ c, encodeIn table ms[i] = some c → row'[c]? = probs[j + i]?) ∧
        (∀ c, (∀ m ∈ ms, encodeIn table m ≠ some c) → row'[c]? = row[c]?) := by
  intro ms
  induction ms with
  | nil =>
    intro j row hl _ _ _
    exact ⟨row, rfl, hl, by simp, by simp⟩
  | cons m ms ih =>
    intro j row hl hnd hall hlen
    obtain ⟨c, hc, hcW⟩ := hall m (by simp)
    have hj : j < probs.length := by simp at hlen; omega
    have hnd' := List.nodup_cons.mp hnd
    obtain ⟨row', h1, h2, h3, h4⟩ := ih (j + 1) (row.set c probs[j]) (by simpa using hl) hnd'.2
      (fun m' hm' => hall m' (by simp [hm'])) (by simp at hlen; omega)
    refine ⟨row', ?_, h2, ?_, ?_⟩
    · simp only [scatter, hc, List.getElem?_eq_getElem hj, hcW, if_true]
      exact h1
    · intro i hi c' hc'
      cases i with
      | zero =>
        simp only [List.getElem_cons_zero] at hc'
        have : c' = c := by rw [hc] at hc'; exact (Option.some.inj hc').symm
        subst this
        rw [h4 c' ?_]
        · simp [hl, hcW, List.getElem?_eq_getElem hj]
        · intro m' hm' e
          have := encodeIn_inj e hc
          subst this
          exact hnd'.1 hm'
      | succ i =>
        simp only [List.getElem_cons_succ] at hc'
        have := h3 i (by simpa using hi) c' hc'
        rw [this]; congr 1; omega
    · intro c' hne
      rw [h4 c' (fun m' hm' => hne m' (by simp [hm']))]
      have : c ≠ c' := by
        intro e; subst e; exact hne m (by simp) hc
      simp [this]


theorem logits_spec (t : Transcript) (W : Nat) (p0 : Pos) (ok : TranscriptOK t W p0) :
    ∃ L, t.logits W = some L ∧ L.length = t.positions.length ∧
      ∀ (i : Nat) ms ps, t.moves[i]? = some ms → t.probs[i]? = some ps →
        ∃ row, L[i]? = some row ∧ DenseRow p0.size W ms ps row := by
  obtain ⟨rest, hpos⟩ : ∃ rest, t.positions = p0 :: rest := by
    have := ok.first
    cases h : t.positions with
    | nil => rw [h] at this; cases this
    | cons a l => rw [h] at this; simp at this; subst this; exact ⟨l, rfl⟩
  -- every row of the loop succeeds
  have hrow : ∀ i (hi : i < t.moves.length), ∃ ps, t.probs[i]? = some ps ∧
      ∃ row, scatter (Gen.allMovesForSize p0.size) W ps t.moves[i] 0 (List.replicate W 0) = some row ∧
        DenseRow p0.size W t.moves[i] ps row := by
    intro i hi
    have hi' : i < t.probs.length := by rw [ok.len_probs, ← ok.len_moves]; exact hi
    refine ⟨t.probs[i], List.getElem?_eq_getElem hi', ?_⟩
    obtain ⟨hnd, hlen, hall⟩ := ok.cands i t.moves[i] t.probs[i] (List.getElem?_eq_getElem hi)
      (List.getElem?_eq_getElem hi')
    obtain ⟨row, h1, h2, h3, h4⟩ := scatter_spec (Gen.allMovesForSize p0.size) W t.probs[i] t.moves[i] 0
      (List.replicate W 0) (by simp) hnd (fun m hm => by simpa [encodeIn_table] using hall m hm)
      (by omega)
    refine ⟨row, h1, h2, ?_, ?_⟩
    · intro j hj c hc
      have := h3 j hj c (by rw [encodeIn_table]; exact hc)
      simpa using this
    · intro c hc hne
      rw [h4 c (fun m hm => by rw [encodeIn_table]; exact hne m hm)]
      simp [hc]
  have hl : ∀ n (hn : n < t.moves.length),
      (t.moves.zipIdx.map fun (x : List Move × Nat) =>
        match t.probs[x.2]? with
        | some ps => scatter (Gen.allMovesForSize p0.size) W ps x.1 0 (List.replicate W 0)
        | none => if x.1.isEmpty then some (List.replicate W 0) else none)[n]? =
      some (scatter (Gen.allMovesForSize p0.size) W (t.probs[n]'(by
        rw [ok.len_probs, ← ok.len_moves]; exact hn)) t.moves[n] 0 (List.replicate W 0)) := by
    intro n hn
    have hn' : n < t.probs.length := by rw [ok.len_probs, ← ok.len_moves]; exact hn
    simp [hn, List.getElem?_eq_getElem hn']
  have hsome : ∀ x ∈ (t.moves.zipIdx.map fun (x : List Move × Nat) =>
        match t.probs[x.2]? with
        | some ps => scatter (Gen.allMovesForSize p0.size) W ps x.1 0 (List.replicate W 0)
        | none => if x.1.isEmpty then some (List.replicate W 0) else none), x.isSome := by
    intro x hx
    obtain ⟨n, hn, rfl⟩ := List.mem_iff_getElem.mp hx
    have hn' : n < t.moves.length := by simpa using hn
    have h1 := hl n hn'
    rw [List.getElem?_eq_getElem hn] at h1
    obtain ⟨ps, hps, row, hrow', _⟩ := hrow n hn'
    have hn'' : n < t.probs.length := by rw [ok.len_probs, ← ok.len_moves]; exact hn'
    rw [List.getElem?_eq_getElem hn''] at hps
    have := Option.some.inj hps
    rw [Option.some.inj h1, this, hrow']; rfl
  obtain ⟨L, hL⟩ := allSome_isSome hsome
  have hg := allSome_getElem hL
  refine ⟨L, ?_, ?_, ?_⟩
  · unfold Transcript.logits; rw [hpos]; exact hL
  · rw [hg.1]; simp [ok.len_moves]
  · intro i ms ps hms hps
    have hi : i < t.moves.length := by
      rcases Nat.lt_or_ge i t.moves.length with h | h
      · exact h
      · rw [List.getElem?_eq_none h] at hms; cases hms
    obtain ⟨ps', hps', row, hrow', hd⟩ := hrow i hi
    rw [hps] at hps'
    have e1 := Option.some.inj hps'
    subst e1
    have e2 : ms = t.moves[i] := by rw [List.getElem?_eq_getElem hi] at hms; exact (Option.some.inj hms).symm
    subst e2
    refine ⟨row, ?_, hd⟩
    have hi2 : i < (t.moves.zipIdx.map fun (x : List Move × Nat) =>
        match t.probs[x.2]? with
        | some ps => scatter (Gen.allMovesForSize p0.size) W ps x.1 0 (List.replicate W 0)
        | none => if x.1.isEmpty then some (List.replicate W 0) else none).length := by simpa using hi
    have h2 := hg.2 i hi2
    have h3 := hl i hi
    rw [List.getElem?_eq_getElem hi2, h2] at h3
    have hi3 : i < t.probs.length := by rw [ok.len_probs, ← ok.len_moves]; exact hi
    have e3 : t.probs[i] = ps := by rw [List.getElem?_eq_getElem hi3] at hps; exact Option.some.inj hps
    rw [e3, hrow'] at h3
    have hiL : i < L.length := by rw [hg.1]; exact hi2
    rw [List.getElem?_eq_getElem hiL]
    exact congrArg some (Option.some.inj (Option.some.inj h3))


/-! ### `encode_games` -/

theorem flatMap_getElem?_mid {α β : Type} (f : α → List β) (pre : List α) (t : α) (post : List α)
    (i : Nat) (hi : i < (f t).length) :
    ((pre ++ t :: post).flatMap f)[(pre.flatMap f).length + i]? = (f t)[i]? := by
  rw [List.flatMap_append, List.flatMap_cons, List.getElem?_append_right (by omega)]
  rw [Nat.add_sub_cancel_left, List.getElem?_append_left hi]

theorem flatMap_length_congr {α β γ : Type} (f : α → List β) (g : α → List γ) (l : List α)
    (h : ∀ x ∈ l, (f x).length = (g x).length) : (l.flatMap f).length = (l.flatMap g).length := by
  induction l with
  | nil => rfl
  | cons a l ih =>
    simp only [List.flatMap_cons, List.length_append]
    rw [h a (by simp), ih (fun x hx => h x (by simp [hx]))]

theorem results_length (t : Transcript) : t.results.length = t.positions.length := by
  unfold Transcript.results; cases t.result <;> simp

theorem results_getElem? (t : Transcript) (i : Nat) :
    t.results[i]? = t.positions[i]?.map fun p =>
      match t.result with
      | none => (0 : Int)
      | some c => if p.toMove = c then 1 else -1 := by
  unfold Transcript.results
  cases t.result with
  | none =>
    simp only [List.getElem?_replicate]
    by_cases h : i < t.positions.length
    · simp [h]
    · simp [h]
  | some c => simp

/-- `encode_games` succeeds on well-formed transcripts and its columns are the flattenings -/
theorem encodeGames_eq (enc : Pos → List Nat) (W : Nat) (logs : List Transcript) (hne : logs ≠ [])
    (hok : ∀ t ∈ logs, ∃ p0, TranscriptOK t W p0) :
    encodeGames enc W logs = some
      ⟨(encodeBatch ((logs.flatMap (·.positions)).map enc)).1,
       (encodeBatch ((logs.flatMap (·.positions)).map enc)).2,
       logs.flatMap (fun t => (t.logits W).getD []),
       logs.flatMap (·.values),
       (logs.flatMap (·.results)).map fun (r : Int) => (r : Rat)⟩ := by
  have hsome : ∀ x ∈ logs.map (·.logits W), x.isSome := by
    intro x hx
    obtain ⟨t, ht, rfl⟩ := List.mem_map.mp hx
    obtain ⟨p0, ok⟩ := hok t ht
    obtain ⟨L, hL, _⟩ := logits_spec t W p0 ok
    rw [hL]; rfl
  obtain ⟨Ls, hLs⟩ := allSome_isSome hsome
  have h1 := allSome_eq_some.mp hLs
  have h2 : Ls = logs.map (fun t => (t.logits W).getD []) := by
    have := congrArg (List.map (fun o : Option (List (List Rat)) => o.getD [])) h1
    simp only [List.map_map] at this
    have hid : ((fun o : Option (List (List Rat)) => o.getD []) ∘ some) = id := rfl
    rw [hid, List.map_id] at this
    rw [← this]; rfl
  unfold encodeGames
  have hemp : logs.isEmpty = false := by
    cases logs with
    | nil => exact absurd rfl hne
    | cons _ _ => rfl
  simp only [hemp, hLs]
  rw [h2, List.flatten_eq_flatMap, List.flatMap_map]
  rfl


end BatchLemmas
end Tak

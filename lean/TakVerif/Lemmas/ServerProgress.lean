/-
  Helper lemmas for C17: the service order only grows at the back and is consumed from the
  front, one non-empty batch per completed model call.
-/
import TakVerif.Lemmas.Server

namespace Tak.Server

variable {P R : Type}

/-- how an order list may change in one step: something is appended at the back (not a
    `complete`), or a non-empty prefix leaves and is answered (`complete`) -/
def Rel (L L' ans' : List Nat) (isC : Bool) : Prop :=
  (isC = false ∧ ∃ x, L' = L ++ x) ∨
  (isC = true ∧ ∃ b, b ≠ [] ∧ L = b ++ L' ∧ ∀ i ∈ b, i ∈ ans')

theorem rel_index {L L' ans' : List Nat} {isC : Bool} (h : Rel L L' ans' isC) {k i : Nat}
    (hk : L[k]? = some i) :
    i ∈ ans' ∨ ∃ k', k' ≤ k ∧ L'[k']? = some i ∧ (isC = true → k' < k) := by
  rcases h with ⟨hc, x, rfl⟩ | ⟨_, b, hb, rfl, hans⟩
  · refine Or.inr ⟨k, Nat.le_refl _, ?_, fun h => by simp [hc] at h⟩
    have hlt : k < L.length := by
      obtain ⟨h, _⟩ := List.getElem?_eq_some_iff.mp hk
      exact h
    rw [List.getElem?_append_left hlt]
    exact hk
  · by_cases hlt : k < b.length
    · left
      rw [List.getElem?_append_left hlt] at hk
      exact hans i (List.mem_of_getElem? hk)
    · right
      have hge : b.length ≤ k := Nat.le_of_not_lt hlt
      rw [List.getElem?_append_right hge] at hk
      have hpos : 0 < b.length := List.length_pos_iff.mpr hb
      exact ⟨k - b.length, Nat.sub_le _ _, hk, fun _ => by omega⟩

theorem mem_answeredIds_complete {f : P → R} {s : State P R} {b : List (Req P)} {i : Nat}
    (h : i ∈ ids b) : i ∈ (s.answered ++ assign b (runModel f b)).map (·.1) := by
  rw [answeredIds_complete]
  exact List.mem_append_right _ h

/-- the admitted line (running batch, batch being formed, queue) under ANY step -/
theorem line_rel {cap : Nat} {f : P → R} {s s' : State P R} {a : Action P}
    (h : Inv f s) (hs : step cap f s a = some s') :
    Rel (ids s.line) (ids s'.line) s'.answeredIds a.isComplete := by
  cases a with
  | arrive r =>
    simp only [step] at hs
    split at hs
    · cases hs
    split at hs <;> cases hs
    · exact Or.inl ⟨rfl, [r.id], by simp [State.line]⟩
    · exact Or.inl ⟨rfl, [], by simp [State.line]⟩
  | enter k =>
    simp only [step] at hs
    split at hs
    · cases hs
    rename_i r hr
    split at hs <;> cases hs
    exact Or.inl ⟨rfl, [r.id], by simp [State.line]⟩
  | take =>
    simp only [step] at hs
    split at hs
    · rename_i r q hrun hq
      cases hs
      exact Or.inl ⟨rfl, [], by simp [State.line, hq, hrun]⟩
    · cases hs
  | close =>
    simp only [step] at hs
    split at hs
    · rename_i r b hrun hb
      cases hs
      exact Or.inl ⟨rfl, [], by simp [State.line, hb, hrun]⟩
    · cases hs
  | complete =>
    simp only [step] at hs
    split at hs
    · rename_i b hrun
      cases hs
      obtain ⟨hne, hbatch⟩ := h.busy b hrun
      refine Or.inr ⟨rfl, ids b, ?_, ?_, ?_⟩
      · cases b with
        | nil => exact absurd rfl hne
        | cons x b => simp
      · simp [State.line, hrun, hbatch]
      · intro i hi
        exact mem_answeredIds_complete hi
    · cases hs

/-- the whole line, parked callers included, under a FAIR step (head-first admission, no
    overtaking) -/
theorem pending_rel {cap : Nat} {f : P → R} {s s' : State P R} {a : Action P}
    (h : Inv f s) (hfair : fairStep cap s a = true) (hs : step cap f s a = some s') :
    Rel (ids s.pending) (ids s'.pending) s'.answeredIds a.isComplete := by
  cases a with
  | arrive r =>
    simp only [step] at hs
    split at hs
    · cases hs
    split at hs <;> cases hs
    · rename_i hroom
      simp only [fairStep, Bool.or_eq_true, List.isEmpty_iff, decide_eq_true_eq] at hfair
      have hp : s.putters = [] := by
        rcases hfair with h | h
        · exact h
        · omega
      exact Or.inl ⟨rfl, [r.id], by simp [State.pending, hp]⟩
    · exact Or.inl ⟨rfl, [r.id], by simp [State.pending]⟩
  | enter k =>
    simp only [fairStep, beq_iff_eq] at hfair
    subst hfair
    simp only [step] at hs
    split at hs
    · cases hs
    rename_i r hr
    split at hs <;> cases hs
    have hsplit := split_at hr
    simp only [List.take_zero, List.nil_append, Nat.zero_add] at hsplit
    refine Or.inl ⟨rfl, [], ?_⟩
    simp only [State.pending, List.take_zero, List.nil_append, Nat.zero_add, List.append_nil]
    rw [hsplit]
    simp
  | take =>
    simp only [step] at hs
    split at hs
    · rename_i r q hrun hq
      cases hs
      exact Or.inl ⟨rfl, [], by simp [State.pending, hq, hrun]⟩
    · cases hs
  | close =>
    simp only [step] at hs
    split at hs
    · rename_i r b hrun hb
      cases hs
      exact Or.inl ⟨rfl, [], by simp [State.pending, hb, hrun]⟩
    · cases hs
  | complete =>
    simp only [step] at hs
    split at hs
    · rename_i b hrun
      cases hs
      obtain ⟨hne, hbatch⟩ := h.busy b hrun
      refine Or.inr ⟨rfl, ids b, ?_, ?_, ?_⟩
      · cases b with
        | nil => exact absurd rfl hne
        | cons x b => simp
      · simp [State.pending, hrun, hbatch]
      · intro i hi
        exact mem_answeredIds_complete hi
    · cases hs

theorem completes_cons (a : Action P) (as : List (Action P)) :
    completes (a :: as) = (if a.isComplete then 1 else 0) + completes as := by
  unfold completes
  rw [List.filter_cons]
  split <;> simp <;> omega

/-- generic potential argument: if the order list `ord` obeys `Rel` along an execution, whoever
    stands at index k has been answered once k+1 batches have completed -/
theorem progress_generic {cap : Nat} {f : P → R} (ord : State P R → List Nat)
    (ok : State P R → Action P → Bool)
    (hrel : ∀ (s s' : State P R) (a : Action P), Inv f s → ok s a = true →
      step cap f s a = some s' → Rel (ord s) (ord s') s'.answeredIds a.isComplete)
    (as : List (Action P)) :
    ∀ (s s' : State P R) (k i : Nat), Inv f s → allSteps ok cap f s as = true →
      (ord s)[k]? = some i → run cap f s as = some s' → k + 1 ≤ completes as →
      i ∈ s'.answeredIds := by
  induction as with
  | nil =>
    intro s s' k i _ _ _ _ hc
    simp [completes] at hc
  | cons a as ih =>
    intro s s' k i hinv hall hk hr hc
    simp only [run] at hr
    cases hstep : step cap f s a with
    | none => simp [hstep] at hr
    | some s1 =>
      simp only [hstep, Option.bind_some] at hr
      simp only [allSteps, hstep, Bool.and_eq_true] at hall
      have hinv1 := inv_step hinv hstep
      rcases rel_index (hrel s s1 a hinv hall.1 hstep) hk with hans | ⟨k', hle, hk', hlt⟩
      · obtain ⟨l, hl⟩ := answered_mono_run hr
        simp only [State.answeredIds, hl, List.map_append, List.mem_append]
        exact Or.inl hans
      · refine ih s1 s' k' i hinv1 hall.2 hk' hr ?_
        rw [completes_cons] at hc
        by_cases hcomp : a.isComplete = true
        · have := hlt hcomp
          simp only [hcomp, if_true] at hc
          omega
        · simp only [hcomp] at hc
          simp at hc
          omega

theorem allSteps_true {cap : Nat} {f : P → R} (as : List (Action P)) :
    ∀ s : State P R, allSteps (fun _ _ => true) cap f s as = true := by
  induction as with
  | nil => intro s; rfl
  | cons a as ih =>
    intro s
    simp only [allSteps, Bool.true_and]
    split
    · exact ih _
    · rfl

/-! ### the worker is never stuck, and without new arrivals the system drains -/

/-- weighted count of the stages a pending request still has to pass -/
def potential (s : State P R) : Nat :=
  4 * s.putters.length + 3 * s.queue.length + 2 * s.batch.length
    + (s.running.getD []).length

theorem potential_step {cap : Nat} {f : P → R} {s s' : State P R} {a : Action P}
    (h : Inv f s) (hna : a.isArrive = false) (hs : step cap f s a = some s') :
    potential s' < potential s := by
  cases a with
  | arrive r => simp [Action.isArrive] at hna
  | enter k =>
    simp only [step] at hs
    split at hs
    · cases hs
    rename_i r hr
    split at hs <;> cases hs
    have hlen := congrArg List.length (split_at hr)
    simp only [List.length_append, List.length_cons] at hlen
    simp only [potential, List.length_append, List.length_cons, List.length_nil]
    omega
  | take =>
    simp only [step] at hs
    split at hs
    · rename_i r q hrun hq
      cases hs
      simp only [potential, hq, hrun, List.length_append, List.length_cons, List.length_nil,
        Option.getD_none]
      omega
    · cases hs
  | close =>
    simp only [step] at hs
    split at hs
    · rename_i r b hrun hb
      cases hs
      simp only [potential, hb, hrun, List.length_cons, List.length_nil, Option.getD_some,
        Option.getD_none]
      omega
    · cases hs
  | complete =>
    simp only [step] at hs
    split at hs
    · rename_i b hrun
      cases hs
      have hpos : 0 < b.length := List.length_pos_iff.mpr (h.busy b hrun).1
      simp only [potential, hrun, Option.getD_some, Option.getD_none, List.length_nil]
      omega
    · cases hs

end Tak.Server

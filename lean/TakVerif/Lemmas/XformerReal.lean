/-
  The real-number instance of the scalar class of `Model/Xformer.lean` and the arithmetic
  facts C16 needs: hidden keys are inert (`inert_real`), softmax is a probability vector,
  softmax with a boolean mask equals softmax with additive `-∞` over `WithBot ℝ`.
-/
import Mathlib.Analysis.SpecialFunctions.Log.Basic
import Mathlib.Analysis.Complex.Trigonometric
import Mathlib.Analysis.Real.Sqrt
import Mathlib.Algebra.BigOperators.Ring.List
import Mathlib.Algebra.Order.BigOperators.Group.List
import TakVerif.Lemmas.Xformer

namespace Tak.Xformer

noncomputable instance : Scalar ℝ where
  ofNat n := (n : ℝ)
  exp := Real.exp
  log := Real.log
  sqrt := Real.sqrt
  tanh := Real.tanh
  sin := Real.sin
  cos := Real.cos
  lt a b := decide (a < b)

/-- numerators of the masked softmax for a given shift `m` -/
noncomputable def expRow (m : ℝ) (l : List (Bool × ℝ)) : List ℝ :=
  l.map (fun p => if p.1 then Real.exp (p.2 - m) else 0)

theorem maskedSoftmax_eq (l : List (Bool × ℝ)) :
    maskedSoftmax l =
      (expRow ((maskedMax l).getD 0) l).map (· / (expRow ((maskedMax l).getD 0) l).sum) := rfl

theorem maskedMax_filter (l : List (Bool × ℝ)) : maskedMax (l.filter (·.1)) = maskedMax l := by
  induction l with
  | nil => rfl
  | cons p r ih =>
    obtain ⟨a, s⟩ := p
    cases a
    · simp only [List.filter_cons, Bool.false_eq_true, if_false, ih, maskedMax]
      cases maskedMax r <;> rfl
    · simp only [List.filter_cons, if_true, maskedMax, ih]

theorem expRow_sum_filter (m : ℝ) (l : List (Bool × ℝ)) :
    (expRow m (l.filter (·.1))).sum = (expRow m l).sum := by
  induction l with
  | nil => rfl
  | cons p r ih =>
    obtain ⟨a, s⟩ := p
    cases a
    · simp only [List.filter_cons, Bool.false_eq_true, if_false, ih]
      simp [expRow]
    · simp only [List.filter_cons, if_true]
      simp only [expRow, List.map_cons, List.sum_cons, if_true] at ih ⊢
      rw [ih]

/-- weight zero: an entry that is not allowed has softmax weight exactly `0` -/
theorem maskedSoftmax_hidden (l : List (Bool × ℝ)) (j : Nat) (hj : j < l.length) (h : l[j].1 = false) :
    (maskedSoftmax l)[j]'(by simpa [maskedSoftmax] using hj) = 0 := by
  simp [maskedSoftmax, h]

/-- the weighted sum of one output column, for fixed shift and normaliser -/
theorem column_filter (m z : ℝ) (s val : Key ℝ → ℝ) (keys : List (Key ℝ)) :
    (List.zipWith (fun w k => w * val k)
        (keys.map (fun k => (if k.1 then Real.exp (s k - m) else 0) / z)) keys).sum =
    (List.zipWith (fun w k => w * val k)
        ((keys.filter (·.1)).map (fun k => (if k.1 then Real.exp (s k - m) else 0) / z))
        (keys.filter (·.1))).sum := by
  induction keys with
  | nil => rfl
  | cons k r ih =>
    by_cases hk : k.1 = true
    · simp only [List.filter_cons, hk, if_true, List.map_cons, List.zipWith_cons_cons, List.sum_cons, ih]
    · simp only [Bool.not_eq_true] at hk
      simp only [List.filter_cons, hk, Bool.false_eq_true, if_false, List.map_cons, List.zipWith_cons_cons,
        List.sum_cons, ih, zero_div, zero_mul, zero_add]

/-- hidden keys are inert over `ℝ` -/
theorem inert_real : Inert ℝ := by
  intro dHead scale q keys
  unfold attnHead
  apply List.map_congr_left
  intro c _
  have hmap : (keys.filter (·.1)).map (fun k : Key ℝ => (k.1, dot (q.map (· * scale)) k.2.1)) =
      (keys.map (fun k : Key ℝ => (k.1, dot (q.map (· * scale)) k.2.1))).filter (·.1) := by
    rw [List.filter_map]
    rfl
  rw [hmap, maskedSoftmax_eq, maskedSoftmax_eq, maskedMax_filter, expRow_sum_filter]
  generalize (maskedMax (keys.map (fun k : Key ℝ => (k.1, dot (q.map (· * scale)) k.2.1)))).getD 0 = m
  generalize (expRow m (keys.map (fun k : Key ℝ => (k.1, dot (q.map (· * scale)) k.2.1)))).sum = z
  rw [← hmap]
  simp only [expRow, List.map_map]
  exact column_filter m z (fun k => dot (q.map (· * scale)) k.2.1) (fun k => k.2.2.getD c 0) keys

/-! ### softmax is a probability vector -/

theorem expRow_all_pos (m : ℝ) (l : List ℝ) : ∀ x ∈ expRow m (l.map (fun s => (true, s))), 0 < x := by
  intro x hx
  simp only [expRow, List.map_map, List.mem_map, Function.comp] at hx
  obtain ⟨s, _, rfl⟩ := hx
  simp [Real.exp_pos]

theorem softmax_nonneg (l : List ℝ) : ∀ x ∈ softmax l, 0 ≤ x := by
  intro x hx
  unfold softmax at hx
  rw [maskedSoftmax_eq, List.mem_map] at hx
  obtain ⟨e, he, rfl⟩ := hx
  apply div_nonneg (le_of_lt (expRow_all_pos _ l e he))
  apply List.sum_nonneg
  intro y hy
  exact le_of_lt (expRow_all_pos _ l y hy)

theorem softmax_pos (l : List ℝ) : ∀ x ∈ softmax l, 0 < x := by
  intro x hx
  unfold softmax at hx
  rw [maskedSoftmax_eq, List.mem_map] at hx
  obtain ⟨e, he, rfl⟩ := hx
  apply div_pos (expRow_all_pos _ l e he)
  apply List.sum_pos _ (expRow_all_pos _ l)
  intro h
  rw [h] at he
  cases he

theorem softmax_length (l : List ℝ) : (softmax l).length = l.length := by
  simp [softmax, maskedSoftmax]

theorem softmax_sum (l : List ℝ) (hl : l ≠ []) : (softmax l).sum = 1 := by
  unfold softmax
  rw [maskedSoftmax_eq]
  generalize (maskedMax (l.map (fun s => (true, s)))).getD 0 = m
  have hne : expRow m (l.map (fun s => (true, s))) ≠ [] := by
    simpa [expRow] using hl
  have hpos : 0 < (expRow m (l.map (fun s => (true, s)))).sum :=
    List.sum_pos _ (expRow_all_pos m l) hne
  have : ((expRow m (l.map (fun s => (true, s)))).map
      (· / (expRow m (l.map (fun s => (true, s)))).sum)).sum =
      (expRow m (l.map (fun s => (true, s)))).sum / (expRow m (l.map (fun s => (true, s)))).sum := by
    simp only [div_eq_mul_inv]
    rw [show (fun x : ℝ => x * ((expRow m (l.map (fun s => (true, s)))).sum)⁻¹) =
      (fun x : ℝ => id x * ((expRow m (l.map (fun s => (true, s)))).sum)⁻¹) from rfl,
      List.sum_map_mul_right, List.map_id]
  rw [this, div_self (ne_of_gt hpos)]

/-! ### masking by exclusion = torch's additive `-∞` -/

/-- `exp` on the reals extended by `-∞` (`exp(-∞) = 0`) -/
noncomputable def expBot : WithBot ℝ → ℝ
  | ⊥ => 0
  | (x : ℝ) => Real.exp x

/-- torch's formulation: scores live in `ℝ ∪ {-∞}`, an ordinary softmax is taken (no maximum
    subtracted: on the reals that does not change the quotient) -/
noncomputable def softmaxBot (l : List (WithBot ℝ)) : List ℝ :=
  l.map (fun x => expBot x / (l.map expBot).sum)

/-- the additive mask: `0` for a visible key, `-∞` for a hidden one -/
def addMask (p : Bool × ℝ) : WithBot ℝ := (p.2 : WithBot ℝ) + (if p.1 then 0 else ⊥)

theorem expBot_addMask (p : Bool × ℝ) : expBot (addMask p) = if p.1 then Real.exp p.2 else 0 := by
  obtain ⟨a, s⟩ := p
  cases a
  · simp [addMask, expBot]
  · simp [addMask, expBot]

theorem expRow_shift (m : ℝ) (l : List (Bool × ℝ)) :
    expRow m l = (expRow 0 l).map (· * Real.exp (-m)) := by
  simp only [expRow, List.map_map]
  apply List.map_congr_left
  intro p _
  by_cases h : p.1 = true
  · simp [h, sub_eq_add_neg, Real.exp_add]
  · simp [h]

theorem maskedSoftmax_eq_softmaxBot (l : List (Bool × ℝ)) :
    maskedSoftmax l = softmaxBot (l.map addMask) := by
  rw [maskedSoftmax_eq]
  generalize (maskedMax l).getD 0 = m
  have h0 : (l.map addMask).map expBot = expRow 0 l := by
    simp only [List.map_map, expRow]
    apply List.map_congr_left
    intro p _
    simp [Function.comp, expBot_addMask]
  unfold softmaxBot
  rw [h0, expRow_shift m l, List.sum_map_mul_right, List.map_map, List.map_map]
  simp only [expRow, List.map_map]
  apply List.map_congr_left
  intro p _
  simp only [Function.comp, expBot_addMask, sub_zero]
  have he : Real.exp (-m) ≠ 0 := Real.exp_ne_zero _
  rw [mul_div_mul_right _ _ he]
  rfl

end Tak.Xformer

/-
  The adjudication specification of C02 (`Spec.Road`, `Spec.outcome`, `Spec.roadAnswer`,
  Spec/Road.lean) transported along the eight symmetries: chains of road squares map to
  chains of road squares, the two pairs of opposite edges map to pairs of opposite edges
  (possibly with the ends exchanged — then the chain is reversed), flat counts, fullness and
  reserves are unchanged.  Props/C15.lean combines this with `C02_winner_spec` /
  `C02_hasRoad_spec` to obtain invariance of the real model `Impl.winner` / `Impl.hasRoad`.
-/
import TakVerif.Spec.Road
import TakVerif.Lemmas.WalkPath
import TakVerif.Lemmas.SymOutcome

namespace Tak
namespace Sym
open Mat3 Spec

/-- image of a board square, natural-number coordinates -/
def imgN (s : Mat3) (n : Nat) (a : Nat × Nat) : Nat × Nat :=
  ((sx s n (a.1 : Int) (a.2 : Int)).toNat, (sy s n (a.1 : Int) (a.2 : Int)).toNat)

theorem imgN_spec {s : Mat3} (hs : s ∈ SYMS) {n : Nat} {a : Nat × Nat} (h1 : a.1 < n) (h2 : a.2 < n) :
    (imgN s n a).1 < n ∧ (imgN s n a).2 < n ∧
    (((imgN s n a).1 : Nat) : Int) = s.ax (a.1 : Int) (a.2 : Int) ((n : Int) - 1) ∧
    (((imgN s n a).2 : Nat) : Int) = s.ay (a.1 : Int) (a.2 : Int) ((n : Int) - 1) := by
  have hin : InB n (a.1 : Int) (a.2 : Int) := by unfold InB; omega
  have himg := (InB_image hs n _ _).2 hin
  unfold InB sx sy at himg
  unfold imgN sx sy
  refine ⟨by omega, by omega, ?_, ?_⟩
  · exact Int.toNat_of_nonneg himg.1
  · exact Int.toNat_of_nonneg himg.2.2.1

theorem top_T {s : Mat3} (hs : s ∈ SYMS) {p : Pos} (hwf : p.WF) {a : Nat × Nat}
    (h1 : a.1 < p.size) (h2 : a.2 < p.size) :
    Spec.top (transformPos s p) (imgN s p.size a).1 (imgN s p.size a).2 = Spec.top p a.1 a.2 := by
  have hin : InB p.size (a.1 : Int) (a.2 : Int) := by unfold InB; omega
  have := (rel_transformPos hs hwf).2.2 _ _ hin
  unfold getI at this
  simp only [Int.toNat_natCast] at this
  unfold Spec.top Pos.sq Pos.idx imgN
  rw [transformPos_size]
  rw [this]

theorem roadSq_spec_T {s : Mat3} (hs : s ∈ SYMS) {p : Pos} (hwf : p.WF) {c : Color} {a : Nat × Nat}
    (h : Spec.RoadSq p c a.1 a.2) :
    Spec.RoadSq (transformPos s p) c (imgN s p.size a).1 (imgN s p.size a).2 := by
  obtain ⟨h1, h2, h3⟩ := h
  obtain ⟨i1, i2, _, _⟩ := imgN_spec hs h1 h2
  refine ⟨i1, i2, ?_⟩
  rw [top_T hs hwf h1 h2]; exact h3

theorem adj_imgN {s : Mat3} (hs : s ∈ SYMS) {n : Nat} {a b : Nat × Nat}
    (ha1 : a.1 < n) (ha2 : a.2 < n) (hb1 : b.1 < n) (hb2 : b.2 < n) (h : Spec.Adj a b) :
    Spec.Adj (imgN s n a) (imgN s n b) := by
  obtain ⟨_, _, ea1, ea2⟩ := imgN_spec hs ha1 ha2
  obtain ⟨_, _, eb1, eb2⟩ := imgN_spec hs hb1 hb2
  generalize imgN s n a = A at *
  generalize imgN s n b = B at *
  obtain ⟨a1, a2⟩ := a
  obtain ⟨b1, b2⟩ := b
  obtain ⟨A1, A2⟩ := A
  obtain ⟨B1, B2⟩ := B
  unfold Spec.Adj at *
  simp only at *
  rcases mem_cases hs with rfl | rfl | rfl | rfl | rfl | rfl | rfl | rfl <;>
    simp only [ax, ay] at ea1 ea2 eb1 eb2 <;> omega

/-- opposite edges go to opposite edges, possibly with the two ends exchanged -/
theorem edges_imgN {s : Mat3} (hs : s ∈ SYMS) {n : Nat} {a b : Nat × Nat}
    (ha1 : a.1 < n) (ha2 : a.2 < n) (hb1 : b.1 < n) (hb2 : b.2 < n)
    (h : (a.1 = 0 ∧ b.1 + 1 = n) ∨ (a.2 = 0 ∧ b.2 + 1 = n)) :
    ((imgN s n a).1 = 0 ∧ (imgN s n b).1 + 1 = n) ∨ ((imgN s n a).2 = 0 ∧ (imgN s n b).2 + 1 = n) ∨
    ((imgN s n b).1 = 0 ∧ (imgN s n a).1 + 1 = n) ∨ ((imgN s n b).2 = 0 ∧ (imgN s n a).2 + 1 = n) := by
  obtain ⟨_, _, ea1, ea2⟩ := imgN_spec hs ha1 ha2
  obtain ⟨_, _, eb1, eb2⟩ := imgN_spec hs hb1 hb2
  generalize imgN s n a = A at *
  generalize imgN s n b = B at *
  obtain ⟨a1, a2⟩ := a
  obtain ⟨b1, b2⟩ := b
  obtain ⟨A1, A2⟩ := A
  obtain ⟨B1, B2⟩ := B
  simp only at *
  rcases h with h | h <;>
  rcases mem_cases hs with rfl | rfl | rfl | rfl | rfl | rfl | rfl | rfl <;>
    simp only [ax, ay] at ea1 ea2 eb1 eb2 <;> omega

theorem linked_map {s : Mat3} (hs : s ∈ SYMS) {n : Nat} :
    ∀ (path : List (Nat × Nat)), (∀ cell ∈ path, cell.1 < n ∧ cell.2 < n) → Linked path →
      Linked (path.map (imgN s n))
  | [], _, _ => trivial
  | [_], _, _ => trivial
  | a :: b :: rest, hb, hl => by
    have ha := hb a (by simp)
    have hb' := hb b (by simp)
    refine ⟨adj_imgN hs ha.1 ha.2 hb'.1 hb'.2 hl.1, ?_⟩
    exact linked_map hs (b :: rest) (fun cell hc => hb cell (List.mem_cons_of_mem _ hc)) hl.2

theorem adj_symm {a b : Nat × Nat} (h : Spec.Adj a b) : Spec.Adj b a := by
  unfold Spec.Adj at *; omega

theorem linked_reverse : ∀ (l : List (Nat × Nat)), Linked l → Linked l.reverse
  | [], _ => trivial
  | [_], _ => trivial
  | a :: b :: rest, hl => by
    have ih := linked_reverse (b :: rest) hl.2
    rw [List.reverse_cons]
    exact Walk.linked_snoc _ b a ih (by simp) (adj_symm hl.1)

theorem chain_reverse {p : Pos} {c : Color} {path : List (Nat × Nat)} {a b : Nat × Nat}
    (h : Chain p c path a b) : Chain p c path.reverse b a := by
  obtain ⟨h1, h2, h3, h4⟩ := h
  refine ⟨fun cell hc => h1 cell (List.mem_reverse.1 hc), linked_reverse _ h2, ?_, ?_⟩
  · rw [List.head?_reverse]; exact h4
  · rw [List.getLast?_reverse]; exact h3

theorem chain_T {s : Mat3} (hs : s ∈ SYMS) {p : Pos} (hwf : p.WF) {c : Color}
    {path : List (Nat × Nat)} {a b : Nat × Nat} (h : Chain p c path a b) :
    Chain (transformPos s p) c (path.map (imgN s p.size)) (imgN s p.size a) (imgN s p.size b) := by
  obtain ⟨h1, h2, h3, h4⟩ := h
  refine ⟨?_, ?_, ?_, ?_⟩
  · intro cell hc
    obtain ⟨c0, hc0, rfl⟩ := List.mem_map.1 hc
    exact roadSq_spec_T hs hwf (h1 c0 hc0)
  · exact linked_map hs path (fun cell hc => ⟨(h1 cell hc).1, (h1 cell hc).2.1⟩) h2
  · rw [List.head?_map, h3]; rfl
  · rw [List.getLast?_map, h4]; rfl

theorem road_spec_T {s : Mat3} (hs : s ∈ SYMS) {p : Pos} (hwf : p.WF) {c : Color}
    (h : Road p c) : Road (transformPos s p) c := by
  obtain ⟨path, a, b, hc, he⟩ := h
  have ha := hc.1 a (List.mem_of_head? hc.2.2.1)
  have hb := hc.1 b (List.mem_of_getLast? hc.2.2.2)
  have hc' := chain_T hs hwf hc
  rcases edges_imgN hs ha.1 ha.2.1 hb.1 hb.2.1 he with e | e | e | e
  · exact ⟨_, _, _, hc', .inl e⟩
  · exact ⟨_, _, _, hc', .inr e⟩
  · exact ⟨_, _, _, chain_reverse hc', .inl e⟩
  · exact ⟨_, _, _, chain_reverse hc', .inr e⟩

/-- roads (C02's `Spec.Road`) map to roads, and back -/
theorem road_spec_T_iff {s : Mat3} (hs : s ∈ SYMS) {p : Pos} (hwf : p.WF) (c : Color) :
    Road (transformPos s p) c ↔ Road p c := by
  refine ⟨fun h => ?_, road_spec_T hs hwf⟩
  obtain ⟨s', hs', h1, _⟩ := exists_inv hs
  have := road_spec_T hs' (transformPos_wf (s := s) hwf) h
  rwa [transformPos_inv hs hs' h1 hwf] at this

theorem topFlats_T {s : Mat3} (hs : s ∈ SYMS) {p : Pos} (hwf : p.WF) (c : Color) :
    topFlats (transformPos s p) c = topFlats p c :=
  (scatter_perm hs hwf.2).countP_eq _

theorem boardFull_spec_T {s : Mat3} (hs : s ∈ SYMS) {p : Pos} (hwf : p.WF) :
    Spec.BoardFull (transformPos s p) ↔ Spec.BoardFull p := by
  unfold Spec.BoardFull
  have := scatter_perm hs hwf.2
  constructor
  · intro h st hst; exact h st (this.mem_iff.2 hst)
  · intro h st hst; exact h st (this.mem_iff.1 hst)

theorem reserveEmpty_T (s : Mat3) (p : Pos) (c : Color) :
    ReserveEmpty (transformPos s p) c ↔ ReserveEmpty p c := by
  unfold ReserveEmpty
  simp only [transformPos_stones, transformPos_caps]

theorem flatResult_T {s : Mat3} (hs : s ∈ SYMS) {p : Pos} (hwf : p.WF) :
    flatResult (transformPos s p) = flatResult p := by
  unfold flatResult
  simp only [topFlats_T hs hwf]

theorem justMoved_T (s : Mat3) (p : Pos) : justMoved (transformPos s p) = justMoved p := rfl

open Classical in
/-- C02's outcome specification is invariant under each of the eight symmetries -/
theorem spec_outcome_T {s : Mat3} (hs : s ∈ SYMS) {p : Pos} (hwf : p.WF) :
    Spec.outcome (transformPos s p) = Spec.outcome p := by
  unfold Spec.outcome
  simp only [road_spec_T_iff hs hwf, boardFull_spec_T hs hwf, reserveEmpty_T, flatResult_T hs hwf,
    justMoved_T]

open Classical in
/-- C02's road answer is invariant under each of the eight symmetries -/
theorem spec_roadAnswer_T {s : Mat3} (hs : s ∈ SYMS) {p : Pos} (hwf : p.WF) :
    Spec.roadAnswer (transformPos s p) = Spec.roadAnswer p := by
  unfold Spec.roadAnswer
  simp only [road_spec_T_iff hs hwf, justMoved_T]

end Sym
end Tak

/-
  Board- and text-level lemmas for C13: cutting the flat board into rows, the characters a
  written row can contain, `parseRows` over written rows, inversion of `parseTPS`.
-/
import TakVerif.Lemmas.TPSRow

namespace Tak.TPS
open Tak.Spec.TPS

/-! ### rows of the flat board -/

/-- the `m` consecutive slices of length `n` of `L` (`board[i : i + size]` for `i = r*size`) -/
def chunks {α : Type} (n m : Nat) (L : List α) : List (List α) :=
  (List.range m).map fun r => (L.drop (r * n)).take n

theorem chunks_succ {α : Type} (n m : Nat) (L : List α) :
    chunks n (m + 1) L = L.take n :: chunks n m (L.drop n) := by
  simp only [chunks, List.range_succ_eq_map, List.map_cons, List.map_map, Nat.zero_mul,
    List.drop_zero, List.cons.injEq, true_and]
  apply List.map_congr_left
  intro r _
  simp only [Function.comp, List.drop_drop, Nat.succ_eq_add_one]
  congr 2
  rw [Nat.add_mul]; omega

theorem chunks_flatten {α : Type} (n m : Nat) : ∀ L : List α, L.length = m * n →
    (chunks n m L).flatten = L := by
  induction m with
  | zero => intro L h; simp at h; simp [chunks, h]
  | succ m ih =>
    intro L h
    rw [chunks_succ, List.flatten_cons, ih]
    · exact List.take_append_drop n L
    · rw [List.length_drop, h, Nat.add_mul]; omega

theorem chunks_length {α : Type} (n m : Nat) (L : List α) : (chunks n m L).length = m := by
  simp [chunks]

theorem mem_chunks_length {α : Type} (n m : Nat) : ∀ L : List α, L.length = m * n →
    ∀ R ∈ chunks n m L, R.length = n := by
  induction m with
  | zero => intro L _ R hR; simp [chunks] at hR
  | succ m ih =>
    intro L h R hR
    rw [chunks_succ] at hR
    have hmn : n ≤ L.length := by rw [h, Nat.add_mul]; omega
    rcases List.mem_cons.mp hR with rfl | hR
    · simp [List.length_take]; omega
    · exact ih (L.drop n) (by rw [List.length_drop, h, Nat.add_mul]; omega) R hR

theorem mem_chunks_mem {α : Type} (n m : Nat) (L : List α) {R : List α} (hR : R ∈ chunks n m L)
    {a : α} (ha : a ∈ R) : a ∈ L := by
  simp only [chunks, List.mem_map, List.mem_range] at hR
  obtain ⟨r, _, rfl⟩ := hR
  exact List.mem_of_mem_drop (List.mem_of_mem_take ha)

/-- cutting a concatenation of rows of length `n` gives the rows back -/
theorem chunks_of_flatten {α : Type} (n : Nat) : ∀ Rs : List (List α), (∀ R ∈ Rs, R.length = n) →
    chunks n Rs.length Rs.flatten = Rs := by
  intro Rs
  induction Rs with
  | nil => intro _; simp [chunks]
  | cons R Rs ih =>
    intro h
    have hR : R.length = n := h R (by simp)
    rw [List.length_cons, chunks_succ, List.flatten_cons, List.take_left' hR,
      List.drop_left' hR, ih (fun R' hR' => h R' (List.mem_cons_of_mem _ hR'))]

theorem take_drop_eq_map_getD {α : Type} (L : List α) (a n : Nat) (d : α)
    (h : a + n ≤ L.length) :
    (L.drop a).take n = (List.range n).map fun x => L.getD (x + a) d := by
  apply List.ext_getElem
  · simp; omega
  · intro i h1 h2
    simp only [List.length_map, List.length_range] at h2
    simp only [List.getElem_take, List.getElem_drop, List.getElem_map, List.getElem_range]
    rw [List.getD_eq_getElem?_getD, List.getElem?_eq_getElem (by omega)]
    simp [Nat.add_comm]

/-! ### separators: `commaSep`/`slashSep` are `joinSep` -/

theorem commaSep_eq (l : List (List Char)) : commaSep l = joinSep ',' l := by
  induction l with
  | nil => rfl
  | cons a r ih =>
    cases r with
    | nil => rfl
    | cons b r' => rw [joinSep_cons_cons, ← ih]; simp [commaSep]

theorem slashSep_eq (l : List (List Char)) : slashSep l = joinSep '/' l := by
  induction l with
  | nil => rfl
  | cons a r ih =>
    cases r with
    | nil => rfl
    | cons b r' => rw [joinSep_cons_cons, ← ih]; simp [slashSep]

/-! ### the characters of written items -/

/-- no separator character -/
def Clean (l : List Char) : Prop := ∀ c ∈ l, c ≠ ' ' ∧ c ≠ '/' ∧ c ≠ ','

theorem clean_of_digits {l : List Char} (h : ∀ c ∈ l, c.isDigit = true) : Clean l := by
  intro c hc
  have := (isDigit_iff c).mp (h c hc)
  refine ⟨?_, ?_, ?_⟩ <;> (intro e; subst e; revert this; decide)

theorem clean_writeStack (s : Stack) : Clean (writeStack s) := by
  cases s with
  | nil => intro c hc; simp [writeStack] at hc
  | cons top below =>
    rw [writeStack_cons]
    intro c hc
    rcases List.mem_append.mp hc with hc | hc
    · obtain ⟨col, _, rfl⟩ := List.mem_map.mp hc
      cases col <;> decide
    · obtain ⟨tc, tk⟩ := top
      cases tk <;> simp [markOf] at hc <;> subst hc <;> decide

theorem clean_writeGap (k : Nat) : ∀ it ∈ writeGap k, Clean it := by
  intro it hit
  match k with
  | 0 => simp [writeGap_zero] at hit
  | 1 =>
    simp only [writeGap_one, List.mem_singleton] at hit
    subst hit; intro c hc; simp at hc; subst hc; decide
  | k + 2 =>
    simp only [writeGap_add_two, List.mem_singleton] at hit
    subst hit
    intro c hc
    rcases List.mem_cons.mp hc with rfl | hc
    · decide
    · rw [Nat.toList_repr] at hc
      exact clean_of_digits (fun c hc => isDigit_of_mem_natStr hc) c hc

theorem clean_writeItems (row : List Stack) : ∀ k, ∀ it ∈ writeItems k row, Clean it := by
  induction row with
  | nil => intro k it hit; rw [writeItems_nil] at hit; exact clean_writeGap k it hit
  | cons sq rest ih =>
    intro k it hit
    cases sq with
    | nil => rw [writeItems_empty] at hit; exact ih _ it hit
    | cons pc s =>
      rw [writeItems_stack] at hit
      rcases List.mem_append.mp hit with hit | hit
      · exact clean_writeGap k it hit
      · rcases List.mem_cons.mp hit with rfl | hit
        · exact clean_writeStack _
        · exact ih _ it hit

theorem writeItems_ne_nil (row : List Stack) : ∀ k, (0 < k ∨ row ≠ []) → writeItems k row ≠ [] := by
  induction row with
  | nil =>
    intro k h
    rw [writeItems_nil]
    match k with
    | 0 => simp at h
    | 1 => simp [writeGap_one]
    | k + 2 => simp [writeGap_add_two]
  | cons sq rest ih =>
    intro k _
    cases sq with
    | nil => rw [writeItems_empty]; exact ih _ (.inl (by omega))
    | cons pc s => rw [writeItems_stack]; simp

/-! ### rows -/

/-- `_format_row` writes a row as the standard does -/
theorem formatRow_eq (row : List Stack) : formatRow row = joinSep ',' (writeItems 0 row) := by
  have := formatItems_eq_writeItems row 0 row.length (by omega)
  simp only [List.replicate_zero, List.nil_append] at this
  rw [formatRow, this]

theorem formatRow_chars {row : List Stack} {c : Char} (h : c ∈ formatRow row) :
    c ≠ ' ' ∧ c ≠ '/' := by
  rw [formatRow_eq] at h
  rcases mem_joinSep h with rfl | ⟨it, hit, hc⟩
  · exact ⟨by decide, by decide⟩
  · have := clean_writeItems row 0 it hit c hc
    exact ⟨this.1, this.2.1⟩

theorem parseRow_formatRow {row : List Stack} (hne : row ≠ []) (h8 : row.length ≤ 8)
    (hx : ∀ s ∈ row, flatsBelowTop s = true) : parseRow (formatRow row) = .ok row := by
  rw [formatRow_eq, parseRow,
    splitOn_joinSep (writeItems_ne_nil row 0 (.inr hne))
      (fun it hit hc => (clean_writeItems row 0 it hit _ hc).2.2 rfl),
    parseItems_writeItems row 0 [] (by omega) hx]
  simp

theorem parseRows_formatRows (n : Nat) (hn : 1 ≤ n) (h8 : n ≤ 8) : ∀ (Rs : List (List Stack))
    (sqs : List Stack), (∀ R ∈ Rs, R.length = n ∧ ∀ s ∈ R, flatsBelowTop s = true) →
    parseRows n (Rs.map formatRow) sqs = .ok (sqs ++ Rs.flatten) := by
  intro Rs
  induction Rs with
  | nil => intro sqs _; simp [parseRows]
  | cons R Rs ih =>
    intro sqs h
    obtain ⟨hl, hx⟩ := h R (by simp)
    have hne : R ≠ [] := by intro e; subst e; simp at hl; omega
    rw [List.map_cons, parseRows, parseRow_formatRow hne (by omega) hx]
    simp only [hl, ne_eq, not_true_eq_false, ↓reduceIte]
    rw [ih _ (fun R' hR' => h R' (List.mem_cons_of_mem _ hR'))]
    simp

/-- writing the rows that were parsed from canonical row texts gives the texts back -/
theorem formatRow_parseRow {r : List Char} {R : List Stack} (h : parseRow r = .ok R)
    (hc : rowCanonical r = true) : formatRow R = r := by
  simp only [rowCanonical, fields_eq_splitOn, Bool.and_eq_true, List.all_eq_true,
    decide_eq_true_eq] at hc
  obtain ⟨row, hrow, hw⟩ := writeItems_parseItems (splitOn ',' r) 0 [] R h hc.1
    (fun it hit => by simpa using hc.2 it hit) (.inl rfl)
  simp only [List.nil_append] at hrow
  subst hrow
  rw [formatRow_eq, hw, writeGap_zero, List.nil_append, joinSep_splitOn]

theorem parseRows_canonical (n : Nat) : ∀ (Rt : List (List Char)) (sqs out : List Stack),
    parseRows n Rt sqs = .ok out → (∀ r ∈ Rt, rowCanonical r = true) →
    ∃ Rs : List (List Stack), out = sqs ++ Rs.flatten ∧ (∀ R ∈ Rs, R.length = n) ∧
      Rs.map formatRow = Rt := by
  intro Rt
  induction Rt with
  | nil =>
    intro sqs out h _
    exact ⟨[], by simpa [parseRows] using h.symm, by simp, rfl⟩
  | cons r Rt ih =>
    intro sqs out h hc
    unfold parseRows at h
    split at h
    · cases h
    · rename_i R hR
      split at h
      · cases h
      · rename_i hl
        obtain ⟨Rs, ho, hls, hm⟩ := ih _ _ h (fun r' hr' => hc r' (List.mem_cons_of_mem _ hr'))
        refine ⟨R :: Rs, by simp [ho], ?_, ?_⟩
        · intro R' hR'
          rcases List.mem_cons.mp hR' with rfl | hR'
          · simpa using hl
          · exact hls R' hR'
        · rw [List.map_cons, hm, formatRow_parseRow hR (hc r (by simp))]

theorem parseRows_sound (n : Nat) : ∀ (Rt : List (List Char)) (sqs out : List Stack),
    parseRows n Rt sqs = .ok out →
    (∀ r ∈ Rt, isRow n r = true) ∧ out.length = sqs.length + Rt.length * n := by
  intro Rt
  induction Rt with
  | nil =>
    intro sqs out h
    have : out = sqs := by simpa [parseRows] using h.symm
    simp [this]
  | cons r Rt ih =>
    intro sqs out h
    unfold parseRows at h
    split at h
    · cases h
    · rename_i R hR
      split at h
      · cases h
      · rename_i hl
        have hl' : R.length = n := by simpa using hl
        obtain ⟨h1, h2⟩ := ih _ _ h
        obtain ⟨h3, h4⟩ := parseItems_sound _ _ _ hR
        refine ⟨?_, ?_⟩
        · intro r' hr'
          rcases List.mem_cons.mp hr' with rfl | hr'
          · simp only [isRow, fields_eq_splitOn, Bool.and_eq_true, List.all_eq_true, beq_iff_eq]
            refine ⟨h3, ?_⟩
            simp only [List.length_nil, Nat.zero_add] at h4
            omega
          · exact h1 r' hr'
        · simp only [List.length_append, List.length_cons] at h2 ⊢
          rw [h2, hl', Nat.add_mul]; omega

theorem parseRows_not_crash (n : Nat) : ∀ (Rt : List (List Char)) (sqs : List Stack) (c : String),
    parseRows n Rt sqs ≠ .error (.crash c) := by
  intro Rt
  induction Rt with
  | nil => intro sqs c h; simp [parseRows] at h
  | cons r Rt ih =>
    intro sqs c h
    unfold parseRows at h
    split at h
    · rename_i e he
      cases h
      exact parseItems_not_crash _ _ _ he
    · split at h
      · cases h
      · exact ih _ _ h

/-! ### inversion of `parseTPS` -/

/-- the ply `parse_tps` computes from the two number fields -/
def plyOf (w m : List Char) : Int := 2 * ((decVal m : Int) - 1) + (decVal w : Int) - 1

theorem parseTPS_ok {t : List Char} {p : Pos} (h : parseTPS t = .ok p) :
    ∃ b w m squares, splitOn ' ' t = [b, w, m] ∧ (w = ['1'] ∨ w = ['2']) ∧
      isDigits m = true ∧ 1 ≤ decVal m ∧
      3 ≤ (splitOn '/' b).length ∧ (splitOn '/' b).length ≤ 8 ∧
      parseRows (splitOn '/' b).length (splitOn '/' b).reverse [] = .ok squares ∧
      Pos.fromSquares (Config.standard (splitOn '/' b).length) squares (plyOf w m) = some p := by
  unfold parseTPS at h
  split at h
  · rename_i b w m hsp
    split at h
    · cases h
    · rename_i hw
      split at h
      · cases h
      · rename_i hm
        simp only at h
        split at h
        · cases h
        · rename_i hn
          split at h
          · cases h
          · rename_i squares hsq
            split at h
            · cases h
            · rename_i p' hp
              cases h
              refine ⟨b, w, m, squares, hsp, ?_, ?_, ?_, ?_, ?_, hsq, hp⟩
              · by_cases h1 : w = ['1']
                · exact .inl h1
                · by_cases h2 : w = ['2']
                  · exact .inr h2
                  · exact absurd ⟨h1, h2⟩ hw
              · simp only [Bool.or_eq_true, Bool.not_eq_true', decide_eq_true_eq, not_or] at hm
                simpa using hm.1
              · simp only [Bool.or_eq_true, Bool.not_eq_true', decide_eq_true_eq, not_or] at hm
                omega
              · simp only [Decidable.not_not] at hn; exact hn.1
              · simp only [Decidable.not_not] at hn; exact hn.2
  · cases h

theorem fromSquares_some {c : Config} {squares : List Stack} {ply : Int} {p : Pos}
    (h : Pos.fromSquares c squares ply = some p) :
    squares.length = c.size * c.size ∧ p.size = c.size ∧ p.ply = ply ∧ p.board = squares := by
  unfold Pos.fromSquares at h
  split at h
  · cases h
  · rename_i hl
    simp only [Option.some.injEq] at h
    subst h
    exact ⟨by simpa using hl, rfl, rfl, rfl⟩

/-! ### the two number fields, the rows of `format_tps` -/

/-- the player field, for a non-negative ply -/
theorem who_text {ply : Int} (_h : 0 ≤ ply) :
    (ply % 2 = 0 ∧ intStr (ply % 2 + 1) = ['1']) ∨ (ply % 2 = 1 ∧ intStr (ply % 2 + 1) = ['2']) := by
  have : ply % 2 = 0 ∨ ply % 2 = 1 := by omega
  rcases this with e | e
  · left; rw [e]; exact ⟨rfl, by decide⟩
  · right; rw [e]; exact ⟨rfl, by decide⟩

theorem move_text {ply : Int} (h : 0 ≤ ply) :
    intStr (ply / 2 + 1) = natStr (ply.toNat / 2 + 1) := by
  have h1 : ¬ (ply / 2 + 1 < 0) := by omega
  have h2 : (ply / 2 + 1).toNat = ply.toNat / 2 + 1 := by omega
  rw [intStr, if_neg h1, h2]

theorem board_rows (p : Pos) :
    (List.map (fun r => formatRow (List.take p.size (List.drop (r * p.size) p.board)))
      (List.range p.size)) = (chunks p.size p.size p.board).map formatRow := by
  simp [chunks, List.map_map, Function.comp_def]

end Tak.TPS

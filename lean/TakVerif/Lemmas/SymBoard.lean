/-
  The action of the eight symmetries on boards, pointwise.

  `Rel s n b b'` : `b'` is the image of the `n × n` board `b` under `s`, stated square by
  square: `b'[σ(x, y)] = b[x, y]` for every square of the board.  The scatter loop of
  `transform_position` produces such a board (`rel_scatter`), there is only one
  (`rel_unique`), and overwriting a square on both sides keeps the relation (`rel_set`).
  The non-linear index arithmetic stays inside Lemmas/Board.lean.
-/
import TakVerif.Lemmas.Board
import TakVerif.Lemmas.SymBasic

namespace Tak
namespace Sym
open Mat3

/-- `Position.in_bounds` as a proposition on integer coordinates -/
def InB (n : Nat) (x y : Int) : Prop := 0 ≤ x ∧ x < n ∧ 0 ≤ y ∧ y < n

instance (n : Nat) (x y : Int) : Decidable (InB n x y) := by unfold InB; exact inferInstance

theorem inBounds_iff (p : Pos) (x y : Int) : p.inBounds x y = true ↔ InB p.size x y := by
  simp only [Pos.inBounds, InB, Bool.and_eq_true, decide_eq_true_eq]
  constructor
  · rintro ⟨⟨⟨a, b⟩, c⟩, d⟩; exact ⟨a, b, c, d⟩
  · rintro ⟨a, b, c, d⟩; exact ⟨⟨⟨a, b⟩, c⟩, d⟩

/-- image of the square `(x, y)` of an `n × n` board: the matrix applied to `(x, y, n-1)` -/
abbrev sx (s : Mat3) (n : Nat) (x y : Int) : Int := s.ax x y ((n : Int) - 1)
abbrev sy (s : Mat3) (n : Nat) (x y : Int) : Int := s.ay x y ((n : Int) - 1)

theorem InB_image {s : Mat3} (hs : s ∈ SYMS) (n : Nat) (x y : Int) :
    InB n (sx s n x y) (sy s n x y) ↔ InB n x y := by
  have := inB_iff hs x y ((n : Int) - 1)
  unfold InB sx sy
  omega

theorem image_inj {s : Mat3} (hs : s ∈ SYMS) {n : Nat} {x y x' y' : Int}
    (h1 : sx s n x y = sx s n x' y') (h2 : sy s n x y = sy s n x' y') : x = x' ∧ y = y' :=
  act_inj hs h1 h2

/-- every square of the board is the image of a square of the board -/
theorem image_surj {s : Mat3} (hs : s ∈ SYMS) {n : Nat} {X Y : Int} (h : InB n X Y) :
    ∃ x y, InB n x y ∧ sx s n x y = X ∧ sy s n x y = Y := by
  obtain ⟨s', hs', h1, h2⟩ := exists_inv hs
  refine ⟨sx s' n X Y, sy s' n X Y, (InB_image hs' n X Y).2 h, ?_, ?_⟩
  · exact (inv_act hs' h2 X Y _).1
  · exact (inv_act hs' h2 X Y _).2

/-- `b[x, y]` for integer coordinates -/
def getI (b : List Stack) (n : Nat) (x y : Int) : Stack := b.getD (x.toNat + y.toNat * n) []

theorem atI_eq_getI (p : Pos) (x y : Int) : p.atI x y = getI p.board p.size x y := rfl

theorem getI_set {n : Nat} (b : List Stack) (hb : b.length = n * n) {x y x' y' : Int}
    (h : InB n x y) (h' : InB n x' y') (v : Stack) :
    getI (b.set (x.toNat + y.toNat * n) v) n x' y' =
      if x' = x ∧ y' = y then v else getI b n x' y' := by
  unfold getI
  unfold InB at h h'
  rw [Pos.getD_set_idx b hb (by omega) (by omega) (by omega) (by omega)]
  have e : (x'.toNat = x.toNat ∧ y'.toNat = y.toNat) ↔ (x' = x ∧ y' = y) := by omega
  simp only [e]

/-- `b'` is the image of `b` under `s` -/
def Rel (s : Mat3) (n : Nat) (b b' : List Stack) : Prop :=
  b.length = n * n ∧ b'.length = n * n ∧
  ∀ x y, InB n x y → getI b' n (sx s n x y) (sy s n x y) = getI b n x y

theorem rel_unique {s : Mat3} (hs : s ∈ SYMS) {n : Nat} {b b1 b2 : List Stack}
    (h1 : Rel s n b b1) (h2 : Rel s n b b2) : b1 = b2 := by
  apply Pos.board_ext b1 b2 h1.2.1 h2.2.1
  intro X Y hX hY
  have hin : InB n (X : Int) (Y : Int) := by unfold InB; omega
  obtain ⟨x, y, hxy, ex, ey⟩ := image_surj hs hin
  have a1 := h1.2.2 x y hxy
  have a2 := h2.2.2 x y hxy
  rw [ex, ey] at a1 a2
  unfold getI at a1 a2
  simp only [Int.toNat_natCast] at a1 a2
  rw [a1, a2]

theorem rel_set {s : Mat3} (hs : s ∈ SYMS) {n : Nat} {b b' : List Stack} (h : Rel s n b b')
    {x y : Int} (hxy : InB n x y) (v : Stack) :
    Rel s n (b.set (x.toNat + y.toNat * n) v)
            (b'.set ((sx s n x y).toNat + (sy s n x y).toNat * n) v) := by
  refine ⟨by simpa using h.1, by simpa using h.2.1, ?_⟩
  intro x0 y0 h0
  rw [getI_set b' h.2.1 ((InB_image hs n x y).2 hxy) ((InB_image hs n x0 y0).2 h0),
      getI_set b h.1 hxy h0, h.2.2 x0 y0 h0]
  by_cases e : x0 = x ∧ y0 = y
  · obtain ⟨rfl, rfl⟩ := e; simp
  · have : ¬ (sx s n x0 y0 = sx s n x y ∧ sy s n x0 y0 = sy s n x y) := by
      rintro ⟨e1, e2⟩; exact e (image_inj hs e1 e2)
    simp [e, this]

/-! ### the scatter loop -/

section fold
variable {α : Type} (key : α → Nat) (val : α → Stack)

theorem foldl_set_length (l : List α) (b : List Stack) :
    (l.foldl (fun sqs a => sqs.set (key a) (val a)) b).length = b.length := by
  induction l generalizing b with
  | nil => rfl
  | cons a l ih => simp [List.foldl_cons, ih]

/-- a cell keeps the value `v` if it holds `v` and every write to it writes `v` -/
theorem foldl_set_inv (l : List α) (b : List Stack) (i : Nat) (v : Stack)
    (h : ∀ a ∈ l, key a = i → val a = v) (hb : b.getD i [] = v) :
    (l.foldl (fun sqs a => sqs.set (key a) (val a)) b).getD i [] = v := by
  induction l generalizing b with
  | nil => simpa using hb
  | cons a l ih =>
    rw [List.foldl_cons]
    apply ih _ (fun a' ha' => h a' (List.mem_cons_of_mem _ ha'))
    by_cases e : key a = i
    · have hv := h a (List.mem_cons_self) e
      by_cases hl : i < b.length
      · subst e; simp [List.getD_eq_getElem?_getD, hl, hv]
      · subst e
        have : b.set (key a) (val a) = b := by
          apply List.set_eq_of_length_le; omega
        rw [this]; exact hb
    · simp only [List.getD_eq_getElem?_getD] at hb ⊢
      rw [List.getElem?_set_ne e]; exact hb

/-- a cell that is written holds the value written, if all writers of that cell agree -/
theorem foldl_set_hit (l : List α) (b : List Stack) (a : α) (ha : a ∈ l) (hk : key a < b.length)
    (h : ∀ a' ∈ l, key a' = key a → val a' = val a) :
    (l.foldl (fun sqs a => sqs.set (key a) (val a)) b).getD (key a) [] = val a := by
  obtain ⟨l1, l2, rfl⟩ := List.append_of_mem ha
  rw [List.foldl_append, List.foldl_cons]
  apply foldl_set_inv key val l2 _ (key a) (val a)
  · intro a' ha' e
    exact h a' (by simp [ha']) e
  · have hl := foldl_set_length key val l1 b
    simp [List.getD_eq_getElem?_getD, hl, hk]

end fold

/-- all squares `(i, j)` in the order the double loop visits them -/
def pairs (n : Nat) : List (Nat × Nat) :=
  (List.range n).flatMap fun i => (List.range n).map fun j => (i, j)

theorem mem_pairs {n : Nat} {ij : Nat × Nat} : ij ∈ pairs n ↔ ij.1 < n ∧ ij.2 < n := by
  obtain ⟨i, j⟩ := ij
  simp only [pairs, List.mem_flatMap, List.mem_map, List.mem_range, Prod.mk.injEq]
  constructor
  · rintro ⟨a, ha, c, hc, rfl, rfl⟩; exact ⟨ha, hc⟩
  · rintro ⟨h1, h2⟩; exact ⟨i, h1, j, h2, rfl, rfl⟩

theorem scatter_eq (s : Mat3) (n : Nat) (b : List Stack) :
    scatter s n b =
      (pairs n).foldl
        (fun sqs ij => sqs.set (sx s n ij.1 ij.2 + sy s n ij.1 ij.2 * n).toNat (b.getD (ij.1 + ij.2 * n) []))
        b := by
  unfold scatter pairs
  rw [List.foldl_flatMap]
  simp only [List.foldl_map]

theorem scatter_length (s : Mat3) (n : Nat) (b : List Stack) : (scatter s n b).length = b.length := by
  rw [scatter_eq]
  exact foldl_set_length _ _ _ _

/-- index written for the square `(x, y)` -/
theorem key_eq {n : Nat} {X Y : Int} (h : InB n X Y) : (X + Y * n).toNat = X.toNat + Y.toNat * n := by
  unfold InB at h
  have h1 : ((X.toNat : Nat) : Int) = X := Int.toNat_of_nonneg h.1
  have h2 : ((Y.toNat : Nat) : Int) = Y := Int.toNat_of_nonneg h.2.2.1
  have : X + Y * n = ((X.toNat + Y.toNat * n : Nat) : Int) := by
    rw [Int.natCast_add, Int.natCast_mul, h1, h2]
  rw [this, Int.toNat_natCast]

/-- the loop of `transform_position` builds the image board -/
theorem rel_scatter {s : Mat3} (hs : s ∈ SYMS) {n : Nat} {b : List Stack} (hb : b.length = n * n) :
    Rel s n b (scatter s n b) := by
  refine ⟨hb, by rw [scatter_length, hb], ?_⟩
  intro x y hxy
  have hx : x.toNat < n := by unfold InB at hxy; omega
  have hy : y.toNat < n := by unfold InB at hxy; omega
  have hxe : ((x.toNat : Nat) : Int) = x := Int.toNat_of_nonneg hxy.1
  have hye : ((y.toNat : Nat) : Int) = y := Int.toNat_of_nonneg hxy.2.2.1
  rw [scatter_eq]
  have himg := (InB_image hs n x y).2 hxy
  have hmem : (x.toNat, y.toNat) ∈ pairs n := mem_pairs.2 ⟨hx, hy⟩
  have hit := foldl_set_hit
    (fun ij : Nat × Nat => (sx s n ij.1 ij.2 + sy s n ij.1 ij.2 * n).toNat)
    (fun ij : Nat × Nat => b.getD (ij.1 + ij.2 * n) []) (pairs n) b (x.toNat, y.toNat) hmem
  simp only [hxe, hye] at hit
  rw [key_eq himg] at hit
  unfold getI
  apply hit
  · rw [hb]; unfold InB at himg; exact idx_lt (by omega) (by omega)
  · rintro ⟨i, j⟩ hij e
    obtain ⟨hi, hj⟩ := mem_pairs.1 hij
    simp only at hi hj e ⊢
    have hin' : InB n (i : Int) (j : Int) := by unfold InB; omega
    have himg' := (InB_image hs n i j).2 hin'
    rw [key_eq himg'] at e
    have := idx_inj (n := n) (by unfold InB at himg'; omega) (by unfold InB at himg; omega) e
    have e1 : sx s n i j = sx s n x y := by unfold InB at himg himg'; omega
    have e2 : sy s n i j = sy s n x y := by unfold InB at himg himg'; omega
    obtain ⟨rfl, rfl⟩ := image_inj hs e1 e2
    simp

/-- the image board, characterised: any board related to `b` is the scatter of `b` -/
theorem rel_eq_scatter {s : Mat3} (hs : s ∈ SYMS) {n : Nat} {b b' : List Stack} (h : Rel s n b b') :
    b' = scatter s n b :=
  rel_unique hs h (rel_scatter hs h.1)

end Sym
end Tak

/-
  C17 with departures: the progress bound for the WHOLE line, parked callers included, when
  admission is fair among the callers that are still there.
-/
import TakVerif.Lemmas.ServerLeave
import TakVerif.Lemmas.ServerProgress

namespace Tak.Server

variable {P R : Type}

/-- one step of the order list: appended at the back, or one entry (a caller that left) taken out
    of the middle, or — a completed batch — a non-empty answered prefix removed -/
def RelL (L L' ans' gone' : List Nat) (isC : Bool) : Prop :=
  (isC = false ∧ ((∃ x, L' = L ++ x) ∨ ∃ A d B, L = A ++ d :: B ∧ L' = A ++ B ∧ d ∈ gone')) ∨
  (isC = true ∧ ∃ b, b ≠ [] ∧ L = b ++ L' ∧ ∀ i ∈ b, i ∈ ans')

theorem relL_index {L L' ans' gone' : List Nat} {isC : Bool} (h : RelL L L' ans' gone' isC)
    {k i : Nat} (hk : L[k]? = some i) :
    i ∈ ans' ∨ i ∈ gone' ∨ ∃ k', k' ≤ k ∧ L'[k']? = some i ∧ (isC = true → k' < k) := by
  rcases h with ⟨hc, h⟩ | ⟨hc, b, hb, rfl, hans⟩
  · rcases h with ⟨x, rfl⟩ | ⟨A, d, B, rfl, rfl, hd⟩
    · refine Or.inr (Or.inr ⟨k, Nat.le_refl _, ?_, fun h => by simp [hc] at h⟩)
      have hlt : k < L.length := (List.getElem?_eq_some_iff.mp hk).1
      rw [List.getElem?_append_left hlt]
      exact hk
    · rcases Nat.lt_trichotomy k A.length with hlt | heq | hgt
      · refine Or.inr (Or.inr ⟨k, Nat.le_refl _, ?_, fun h => by simp [hc] at h⟩)
        rw [List.getElem?_append_left hlt] at hk ⊢
        exact hk
      · subst heq
        rw [List.getElem?_append_right (Nat.le_refl _), Nat.sub_self] at hk
        simp only [List.getElem?_cons_zero, Option.some.injEq] at hk
        exact Or.inr (Or.inl (hk ▸ hd))
      · refine Or.inr (Or.inr ⟨k - 1, Nat.sub_le _ _, ?_, fun h => by simp [hc] at h⟩)
        have hge : A.length ≤ k := Nat.le_of_lt hgt
        rw [List.getElem?_append_right hge] at hk
        have hge' : A.length ≤ k - 1 := by omega
        rw [List.getElem?_append_right hge']
        obtain ⟨j, hj⟩ : ∃ j, k - A.length = j + 1 := ⟨k - A.length - 1, by omega⟩
        rw [hj, List.getElem?_cons_succ] at hk
        have : k - 1 - A.length = j := by omega
        rw [this]
        exact hk
  · by_cases hlt : k < b.length
    · left
      rw [List.getElem?_append_left hlt] at hk
      exact hans i (List.mem_of_getElem? hk)
    · right; right
      have hge : b.length ≤ k := Nat.le_of_not_lt hlt
      rw [List.getElem?_append_right hge] at hk
      have hpos : 0 < b.length := List.length_pos_iff.mpr hb
      exact ⟨k - b.length, Nat.sub_le _ _, hk, fun _ => by omega⟩

/-! ### list facts -/

theorem filter_ne_of_count_le_one {l : List (Req P)} {id : Nat}
    (hnd : (ids l).Nodup) :
    (l.filter (fun q => q.id != id) = l ∧ id ∉ ids l) ∨
      ∃ A q B, l = A ++ q :: B ∧ q.id = id ∧ l.filter (fun q => q.id != id) = A ++ B := by
  induction l with
  | nil => exact Or.inl ⟨rfl, by simp [ids]⟩
  | cons a l ih =>
    simp only [ids_cons, List.nodup_cons] at hnd
    by_cases ha : a.id = id
    · right
      refine ⟨[], a, l, rfl, ha, ?_⟩
      have hl : id ∉ ids l := ha ▸ hnd.1
      have : l.filter (fun q => q.id != id) = l := by
        apply List.filter_eq_self.mpr
        intro q hq
        have : q.id ≠ id := fun e => hl (e ▸ mem_ids hq)
        simpa using this
      simp [ha, this]
    · rcases ih hnd.2 with ⟨h1, h2⟩ | ⟨A, q, B, hl, hq, hf⟩
      · left
        refine ⟨?_, ?_⟩
        · simp [ha, h1]
        · simp only [ids_cons, List.mem_cons, not_or]
          exact ⟨fun e => ha e.symm, h2⟩
      · right
        refine ⟨a :: A, q, B, by rw [hl]; rfl, hq, ?_⟩
        simp [ha, hf]

theorem pending_ids_nodup {f : P → R} {s : State P R} (h : Inv f s) : (ids s.pending).Nodup := by
  rw [List.nodup_iff_count]
  intro i
  have h1 := h.count i
  have h2 := List.nodup_iff_count.mp h.nodup i
  omega

theorem present_eq_of_gone_eq {s s' : LState P R} (h : s'.gone = s.gone) :
    s'.present = s.present := by
  funext r
  simp [LState.present, h]

theorem order_eq (s : LState P R) :
    s.order = ids s.base.line ++ ids (s.base.putters.filter s.present) := rfl

def LAction.isComplete : LAction P → Bool
  | .act a => a.isComplete
  | .leave _ => false

/-- the order list under a fair step of the layered system -/
theorem order_relL {cap : Nat} {f : P → R} {s s' : LState P R} {a : LAction P}
    (h : Inv f s.base) (hfair : fairLStep cap s a = true) (hs : lstep cap f s a = some s') :
    RelL s.order s'.order s'.base.answeredIds s'.gone a.isComplete := by
  cases a with
  | leave id =>
    obtain ⟨hb, hg, _, _, _⟩ := lstep_leave hs
    left
    refine ⟨rfl, ?_⟩
    have hpres : s'.present = fun q => s.present q && (q.id != id) := by
      funext q
      simp only [LState.present, hg, List.contains_cons, Bool.not_or]
      cases s.gone.contains q.id <;> cases h1 : (q.id == id) <;> simp [h1, bne]
    have hfilt : s'.base.putters.filter s'.present =
        (s.base.putters.filter s.present).filter (fun q => q.id != id) := by
      rw [hb, hpres, List.filter_filter]
      congr 1
      funext q
      exact Bool.and_comm _ _
    have hnd : (ids (s.base.putters.filter s.present)).Nodup := by
      have hp := pending_ids_nodup h
      have hsub : (ids (s.base.putters.filter s.present)).Sublist (ids s.base.pending) := by
        unfold ids State.pending
        exact (List.filter_sublist.map _).trans ((List.sublist_append_right _ _).map _)
      exact hsub.nodup hp
    rw [order_eq, order_eq, hfilt, hb]
    rcases filter_ne_of_count_le_one (id := id) hnd with ⟨h1, _⟩ | ⟨A, q, B, hl, hq, hf⟩
    · left
      exact ⟨[], by rw [h1, List.append_nil]⟩
    · right
      refine ⟨ids s.base.line ++ ids A, id, ids B, ?_, ?_, ?_⟩
      · rw [hl]; simp [hq]
      · rw [hf]; simp
      · rw [hg]; exact List.mem_cons_self
  | act b =>
    obtain ⟨hb, hg, _⟩ := lstep_act hs
    have hpres := present_eq_of_gone_eq hg
    rw [order_eq, order_eq, hpres, hg]
    cases b with
    | arrive r =>
      left
      refine ⟨rfl, Or.inl ?_⟩
      simp only [step] at hb
      split at hb
      · cases hb
      split at hb
      · rename_i hroom
        have := Option.some.inj hb
        rw [← this]
        simp only [fairLStep, Bool.or_eq_true, List.isEmpty_iff, decide_eq_true_eq] at hfair
        have hp : s.base.putters.filter s.present = [] := by
          rcases hfair with h | h
          · exact h
          · omega
        exact ⟨[r.id], by simp [State.line, hp]⟩
      · have := Option.some.inj hb
        rw [← this]
        refine ⟨ids ((([r] : List (Req P))).filter s.present), ?_⟩
        simp [State.line, List.filter_append]
    | enter k =>
      left
      refine ⟨rfl, Or.inl ⟨[], ?_⟩⟩
      simp only [fairLStep, beq_iff_eq] at hfair
      obtain ⟨hlt, hpk, hbefore⟩ := List.findIdx?_eq_some_iff_getElem.mp hfair
      simp only [step] at hb
      split at hb
      · cases hb
      rename_i r hr
      split at hb
      · have := Option.some.inj hb
        rw [← this]
        have hsplit := split_at hr
        have hrk : s.base.putters[k] = r := by
          have := List.getElem?_eq_getElem hlt
          rw [this] at hr
          exact Option.some.inj hr
        have htake : (s.base.putters.take k).filter s.present = [] := by
          apply List.filter_eq_nil_iff.mpr
          intro a ha
          obtain ⟨j, hj, rfl⟩ := List.mem_iff_getElem.mp ha
          have hjk : j < k := by
            simp only [List.length_take] at hj
            omega
          rw [List.getElem_take]
          exact hbefore j hjk
        have hpr : s.present r = true := by rw [← hrk]; exact hpk
        have hf : s.base.putters.filter s.present =
            r :: (s.base.putters.drop (k + 1)).filter s.present := by
          have h2 := congrArg (List.filter s.present) hsplit
          rw [List.filter_append, htake, List.filter_cons, hpr] at h2
          simpa using h2
        simp only [State.line, List.append_nil]
        rw [hf, List.filter_append, htake]
        simp
      · cases hb
    | take =>
      left
      refine ⟨rfl, Or.inl ⟨[], ?_⟩⟩
      simp only [step] at hb
      split at hb
      · rename_i r q hrun hq
        have := Option.some.inj hb
        rw [← this]
        simp [State.line, hq, hrun]
      · cases hb
    | close =>
      left
      refine ⟨rfl, Or.inl ⟨[], ?_⟩⟩
      simp only [step] at hb
      split at hb
      · rename_i r b hrun hbt
        have := Option.some.inj hb
        rw [← this]
        simp [State.line, hbt, hrun]
      · cases hb
    | complete =>
      right
      simp only [step] at hb
      split at hb
      · rename_i b hrun
        have := Option.some.inj hb
        rw [← this]
        obtain ⟨hne, hbatch⟩ := h.busy b hrun
        refine ⟨rfl, ids b, ?_, ?_, ?_⟩
        · cases b with
          | nil => exact absurd rfl hne
          | cons x b => simp
        · simp [State.line, hrun, hbatch]
        · intro i hi
          exact mem_answeredIds_complete hi
      · cases hb

theorem completes_eraseLeaves_cons (a : LAction P) (as : List (LAction P)) :
    completes (eraseLeaves (a :: as)) = (if a.isComplete then 1 else 0) + completes (eraseLeaves as) := by
  cases a with
  | act b => simp only [eraseLeaves, LAction.isComplete]; exact completes_cons b _
  | leave id => simp [eraseLeaves, LAction.isComplete]

theorem inv_lstep {cap : Nat} {f : P → R} {s s' : LState P R} {a : LAction P}
    (h : Inv f s.base) (hs : lstep cap f s a = some s') : Inv f s'.base := by
  cases a with
  | act b => exact inv_step h (lstep_act hs).1
  | leave id => rw [(lstep_leave hs).1]; exact h

/-- whoever stands at index k of the order list (line, then the parked callers still there) has
    been answered — or has left — once k+1 batches have completed, under fair admission -/
theorem lprogress {cap : Nat} {f : P → R} (as : List (LAction P)) :
    ∀ (s s' : LState P R) (k i : Nat), Inv f s.base → fairLRun cap f s as = true →
      s.order[k]? = some i → lrun cap f s as = some s' → k + 1 ≤ completes (eraseLeaves as) →
      i ∈ s'.base.answeredIds ∨ i ∈ s'.gone := by
  induction as with
  | nil =>
    intro s s' k i _ _ _ _ hc
    simp [completes, eraseLeaves] at hc
  | cons a as ih =>
    intro s s' k i hinv hall hk hr hc
    simp only [lrun] at hr
    cases hstep : lstep cap f s a with
    | none => simp [hstep] at hr
    | some s1 =>
      simp only [hstep, Option.bind_some] at hr
      simp only [fairLRun, lallSteps, hstep, Bool.and_eq_true] at hall
      have hinv1 := inv_lstep hinv hstep
      rcases relL_index (order_relL hinv hall.1 hstep) hk with hans | hgone | ⟨k', hle, hk', hlt⟩
      · left
        obtain ⟨l, hl⟩ := answered_mono_run (lrun_project hr)
        simp only [State.answeredIds, hl, List.map_append, List.mem_append]
        exact Or.inl hans
      · right
        exact gone_mono_run hr i hgone
      · refine ih s1 s' k' i hinv1 hall.2 hk' hr ?_
        rw [completes_eraseLeaves_cons] at hc
        by_cases hcomp : a.isComplete = true
        · have := hlt hcomp
          simp only [hcomp, if_true] at hc
          omega
        · simp only [hcomp] at hc
          simp at hc
          omega

end Tak.Server

/-
  C17 — served evaluations reach the right requester under any arrival schedule.

  The transition system is `Tak.Server.step` (Model/Server.lean): `arrive`, `enter`, `take`,
  `close`, `complete`, for an arbitrary queue capacity `cap` and an arbitrary per-row model
  function `f`; `close` is enabled whenever the batch being formed is non-empty, so every
  batch-formation policy (every threshold, every gather timeout) is covered.  All theorems
  quantify over every execution `run cap f init as = some s` (every action list from the initial
  state), i.e. every interleaving of arrivals, admissions, batch formation and model latency.
-/
import TakVerif.Lemmas.ServerProgress
import TakVerif.Lemmas.ServerTrace
import TakVerif.Lemmas.ServerObs
import TakVerif.Lemmas.ServerLeave
import TakVerif.Lemmas.ServerLeaveProgress

namespace Tak.C17

open Tak.Server

variable {P R : Type}

/-! ### pairing -/

/-- Every response ever delivered under request id `i` is `f` of the position that was submitted
    under that id — never another requester's row. -/
theorem C17_pairing {cap : Nat} {f : P → R} {as : List (Action P)} {s : State P R}
    (hr : run cap f init as = some s) {i : Nat} {resp : R} (ha : (i, resp) ∈ s.answered)
    {r : Req P} (hmem : r ∈ s.arrived) (hid : r.id = i) : resp = f r.position := by
  have inv := inv_reachable hr
  obtain ⟨q, hq, hqid, hresp⟩ := inv.paired (i, resp) ha
  have : q = r := eq_of_id_eq inv.nodup hq hmem (hqid.trans hid.symm)
  subst this
  exact hresp

/-- … and every delivered response does belong to a request that arrived. -/
theorem C17_answered_arrived {cap : Nat} {f : P → R} {as : List (Action P)} {s : State P R}
    (hr : run cap f init as = some s) {i : Nat} {resp : R} (ha : (i, resp) ∈ s.answered) :
    ∃ r ∈ s.arrived, r.id = i ∧ resp = f r.position :=
  (inv_reachable hr).paired (i, resp) ha

/-! ### at most once -/

/-- No request is answered twice. -/
theorem C17_at_most_once {cap : Nat} {f : P → R} {as : List (Action P)} {s : State P R}
    (hr : run cap f init as = some s) : s.answeredIds.Nodup := by
  have inv := inv_reachable hr
  rw [List.nodup_iff_count]
  intro i
  have h1 := inv.count i
  have h2 := List.nodup_iff_count.mp inv.nodup i
  omega

/-! ### conservation -/

/-- Every arrived request is parked, queued, in the batch being formed, in the running batch, or
    answered — as a permutation of ids, and ids are unique, so it is in exactly one place. -/
theorem C17_conservation {cap : Nat} {f : P → R} {as : List (Action P)} {s : State P R}
    (hr : run cap f init as = some s) :
    (ids (s.putters ++ s.queue ++ s.batch ++ s.running.getD []) ++ s.answeredIds).Perm
        (ids s.arrived) ∧ (ids s.arrived).Nodup := by
  have inv := inv_reachable hr
  refine ⟨?_, inv.nodup⟩
  rw [List.perm_iff_count]
  intro i
  have := inv.count i
  simp only [State.pending, ids_append, List.count_append] at this ⊢
  omega

/-- the same, pointwise: an arrived id occurs exactly once among the five places -/
theorem C17_exactly_one {cap : Nat} {f : P → R} {as : List (Action P)} {s : State P R}
    (hr : run cap f init as = some s) {r : Req P} (hmem : r ∈ s.arrived) :
    (ids s.putters).count r.id + (ids s.queue).count r.id + (ids s.batch).count r.id
      + (ids (s.running.getD [])).count r.id + s.answeredIds.count r.id = 1 := by
  have inv := inv_reachable hr
  have h1 := inv.count r.id
  have h2 : (ids s.arrived).count r.id = 1 := by
    rw [inv.nodup.count]
    simp [mem_ids hmem]
  simp only [State.pending, ids_append, List.count_append] at h1
  omega

/-! ### progress -/

/-- "No request stays unanswered while the model keeps answering", quantitatively and for every
    batch policy and admission order: a request standing at index `k` (0-based) of the line
    `running batch ++ batch being formed ++ queue` has its answer after at most `k + 1` further
    completed batches, whatever else happens in between (arrivals, admissions, takes).
    Reason: every completed batch is non-empty and is a prefix of that line, and nothing is ever
    inserted before a request already in it. -/
theorem C17_fifo_progress {cap : Nat} {f : P → R} {as₀ as : List (Action P)} {s s' : State P R}
    (hr₀ : run cap f init as₀ = some s) {k i : Nat} (hk : (ids s.line)[k]? = some i)
    (hr : run cap f s as = some s') (hc : k + 1 ≤ completes as) : i ∈ s'.answeredIds :=
  progress_generic (fun s => ids s.line) (fun _ _ => true)
    (fun _ _ _ hinv _ hs => line_rel hinv hs) as s s' k i (inv_reachable hr₀)
    (allSteps_true as s) hk hr hc

/-- The same bound for the whole line `… ++ queue ++ parked callers` (depth counted through the
    callers blocked in `queue.put` by back-pressure), when admission is fair: parked callers enter
    head first and a fresh arrival does not slip past them (`fairRun`).  asyncio wakes parked
    putters in FIFO order; the hypothesis is explicit because a woken putter that has not run yet
    can be overtaken by a `put` that runs first. -/
theorem C17_fifo_progress_putters {cap : Nat} {f : P → R} {as₀ as : List (Action P)}
    {s s' : State P R} (hr₀ : run cap f init as₀ = some s) {k i : Nat}
    (hk : (ids s.pending)[k]? = some i) (hfair : fairRun cap f s as = true)
    (hr : run cap f s as = some s') (hc : k + 1 ≤ completes as) : i ∈ s'.answeredIds :=
  progress_generic (fun s => ids s.pending) (fairStep cap)
    (fun _ _ _ hinv hok hs => pending_rel hinv hok hs) as s s' k i (inv_reachable hr₀)
    hfair hk hr hc

/-- The server is never stuck with work pending (in any state, reachable or not): some action
    other than a new arrival is enabled (the model can finish, the worker can take or start the model, or a parked caller can
    enter). -/
theorem C17_no_deadlock {cap : Nat} (hcap : 0 < cap) {f : P → R} {s : State P R}
    (hp : s.pending ≠ []) :
    (step cap f s .complete).isSome ∨ (step cap f s .take).isSome ∨
      (step cap f s .close).isSome ∨ (step cap f s (.enter 0)).isSome := by
  cases hrun : s.running with
  | some b => left; simp [step, hrun]
  | none =>
    right
    cases hq : s.queue with
    | cons r q => left; simp [step, hrun, hq]
    | nil =>
      right
      cases hb : s.batch with
      | cons r b => left; simp [step, hrun, hb]
      | nil =>
        right
        cases hpt : s.putters with
        | nil => simp [State.pending, hrun, hq, hb, hpt] at hp
        | cons r p => simp [step, hpt, hq, hcap]

/-- Without new arrivals only finitely many steps are possible: every step other than `arrive`
    lowers `potential`; an arrival-free execution of length n needs `potential ≥ n`. -/
theorem C17_drains {cap : Nat} {f : P → R} {as₀ as : List (Action P)} {s s' : State P R}
    (hr₀ : run cap f init as₀ = some s) (hna : ∀ a ∈ as, a.isArrive = false)
    (hr : run cap f s as = some s') : as.length + potential s' ≤ potential s := by
  have hinv := inv_reachable hr₀
  clear hr₀
  induction as generalizing s with
  | nil => simp only [run] at hr; cases hr; simp
  | cons a as ih =>
    simp only [run] at hr
    cases hstep : step cap f s a with
    | none => simp [hstep] at hr
    | some s1 =>
      simp only [hstep, Option.bind_some] at hr
      have h1 := potential_step hinv (hna a List.mem_cons_self) hstep
      have h2 := ih (fun a ha => hna a (List.mem_cons_of_mem _ ha)) hr (inv_step hinv hstep)
      simp only [List.length_cons]
      omega

/-- When nothing but a new arrival can happen any more (the event loop is idle), every request
    that arrived has been answered. -/
theorem C17_quiescent_answered {cap : Nat} (hcap : 0 < cap) {f : P → R} {as : List (Action P)}
    {s : State P R} (hr : run cap f init as = some s)
    (hq : ∀ a : Action P, a.isArrive = false → step cap f s a = none)
    {r : Req P} (hmem : r ∈ s.arrived) : r.id ∈ s.answeredIds := by
  have hp : s.pending = [] := by
    apply Classical.byContradiction
    intro hne
    rcases C17_no_deadlock (f := f) hcap hne with h | h | h | h <;>
      · rw [hq _ rfl] at h
        cases h
  have inv := inv_reachable hr
  have h1 := inv.count r.id
  have h2 : (ids s.arrived).count r.id = 1 := by
    rw [inv.nodup.count]
    simp [mem_ids hmem]
  rw [hp] at h1
  simp only [ids_nil, List.count_nil] at h1
  have : s.answeredIds.count r.id ≠ 0 := by omega
  exact Classical.byContradiction fun hn => this (List.count_eq_zero.mpr hn)

/-- The bound of `C17_fifo_progress` as a predicate on an observed run: `firstStarved` replays the
    timeline (request entered the queue / model call completed / caller answered) and reports a
    request that sees more than depth-at-entry + 1 completed model calls before its answer.  On the
    timeline of ANY execution of the transition system — any batch policy, capacity, admission
    order — it reports nothing; so a report on the implementation's timeline is a behaviour no
    refinement of the model has ("a request stays unanswered while the model keeps answering"). -/
theorem C17_observed_progress {cap : Nat} {f : P → R} (as : List (Action P)) :
    firstStarved [] (obsOfRun cap f (init : State P R) as) = none :=
  obs_run_ok as init [] (inv_init f) ⟨rfl, fun j x h => by simp at h⟩

/-! ### client side -/

/-- `np.frombuffer(a.tobytes(), float32)` gives back `a` bit for bit: little-endian 4-byte
    encoding followed by decoding is the identity on every list of 32-bit patterns. -/
theorem C17_bytes_roundtrip (ws : List (BitVec 32)) : decodeLE (encodeLE ws) = some ws :=
  decode_encodeLE ws

/-- The decoder is injective on what it accepts: the only byte string decoding to `ws` is the
    encoding of `ws` (and a buffer whose length is not a multiple of 4 is refused). -/
theorem C17_bytes_roundtrip_rev (bs : List (BitVec 8)) (ws : List (BitVec 32))
    (h : decodeLE bs = some ws) : encodeLE ws = bs :=
  encode_decodeLE bs ws h

/-! ### observed traces -/

/-- A trace accepted by the checker is an execution of the transition system (one action per
    event), so every theorem above applies to the state the driver computed from it. -/
theorem C17_trace_sound {cap : Nat} {f : List Nat → R} {es : List Event}
    {s s' : State (List Nat) R} {n : Nat} (h : checkTrace cap f s n es = .ok s') :
    ∃ as, as.length = es.length ∧ run cap f s as = some s' :=
  checkTrace_sound h

/-- What the driver prints for an accepted trace is what the property demands: the response it
    lists for id `i` is `f` of the tokens in the `arrive i` event of that trace. -/
theorem C17_trace_expected {cap : Nat} {f : List Nat → R} {es : List Event}
    {s : State (List Nat) R} (h : checkTrace cap f init 0 es = .ok s) {i : Nat} {resp : R}
    (ha : (i, resp) ∈ s.answered) {toks : List Nat} (he : Event.arrive i toks ∈ es) :
    resp = f toks := by
  obtain ⟨as, _, hrun⟩ := C17_trace_sound h
  exact C17_pairing hrun ha ((arrived_of_checkTrace h).2 i toks he) rfl

/-! ### non-vacuity -/

section Examples

/-- capacity 2, three callers at once (the third is parked), a batch of two closed, a fourth
    arrives while the model runs, then a batch of two -/
def exActs : List (Action (List Nat)) :=
  [.arrive ⟨10, [1, 2]⟩, .arrive ⟨11, [3]⟩, .arrive ⟨12, [4, 5, 6]⟩, .take, .enter 0, .take,
   .close, .arrive ⟨13, [7]⟩, .complete, .take, .take, .close, .complete]

def exF : List Nat → Nat := fun t => t.sum

/-- the execution exists (hypothesis of every theorem above) and answers all four requests, each
    with the sum of its own tokens -/
example : (run 2 exF init exActs).map (·.answered) =
    some [(10, 3), (11, 3), (12, 15), (13, 7)] := by decide

example : (run 2 exF init exActs).map (fun s => ids s.arrived) = some [10, 11, 12, 13] := by
  decide

/-- hypotheses of `C17_fifo_progress`: after the first eight actions request 11 stands at index 1
    of the line `[10, 11, 12, 13]`, and the remaining five actions contain 2 = 1 + 1 completed
    batches -/
example : (run 2 exF init (exActs.take 8)).map (fun s =>
      (ids s.line, (ids s.line)[1]?, completes (exActs.drop 8))) =
    some ([10, 11, 12, 13], some 11, 2) := by decide

/-- hypotheses of `C17_fifo_progress_putters`: capacity 1, request 12 is parked at depth 1 of
    `pending` (it is not in `line`), the continuation is fair and completes two batches -/
def exActs1 : List (Action (List Nat)) :=
  [.arrive ⟨10, [1]⟩, .arrive ⟨12, [2]⟩, .take, .enter 0, .close, .complete, .take, .close,
   .complete]

example : (run 1 exF init (exActs1.take 2)).map (fun s =>
      ((ids s.pending)[1]?, (ids s.line)[1]?, fairRun 1 exF s (exActs1.drop 2),
        completes (exActs1.drop 2))) =
    some (some 12, none, true, 2) := by decide

example : (run 1 exF init exActs1).map (·.answered) = some [(10, 1), (12, 2)] := by decide

/-- an unfair execution exists in the model (13 slips past the parked 12), which is why fairness
    is a hypothesis of the second progress theorem and not a consequence -/
example : fairRun 1 exF (init : State (List Nat) Nat)
    [.arrive ⟨10, []⟩, .arrive ⟨12, []⟩, .take, .arrive ⟨13, []⟩] = false := by decide

/-- quiescence (hypothesis of `C17_quiescent_answered`) is reached by `exActs`: nothing pending,
    so no action other than an arrival is enabled -/
example : (run 2 exF init exActs).map (fun s => (ids s.pending,
      (step 2 exF s .complete).isSome, (step 2 exF s .take).isSome,
      (step 2 exF s .close).isSome, (step 2 exF s (.enter 0)).isSome)) =
    some ([], false, false, false, false) := by decide

/-- the predicate of `C17_observed_progress` is not vacuous: the timeline of `exActs` has four
    entries, two completed calls and four answers, and a timeline in which the first request in
    line is passed over by a completed model call is reported -/
example : (obsOfRun 2 exF (init : State (List Nat) Nat) exActs).length = 10 := by decide

example : (firstStarved [] [.entered 1, .entered 2, .completed, .answered 2, .completed,
    .answered 1]).map (fun x => (x.id, x.depth, x.seen)) = some (1, 0, 2) := by decide

/-- bytes: 1.0f = 0x3F800000 ↦ 00 00 80 3F -/
example : encodeLE [0x3F800000#32, 0x00000001#32] =
    [0x00#8, 0x00#8, 0x80#8, 0x3F#8, 0x01#8, 0x00#8, 0x00#8, 0x00#8] := by decide

example : decodeLE [0x00#8, 0x00#8, 0x80#8] = none := by decide

/-- an accepted trace, and a refused one (the worker took a request that was not at the head) -/
example : validTrace 2 exF
    [.arrive 10 [1, 2], .arrive 11 [3], .arrive 12 [4], .take 10, .enter 12, .take 11, .run 2,
     .done, .take 12, .run 1, .done] = true := by decide

example : validTrace 2 exF [.arrive 10 [1, 2], .arrive 11 [3], .take 11] = false := by decide

end Examples

/-! ### callers that go away (Model/ServerLeave.lean)

  `leave id`: the caller of request `id` abandons its call — while parked in `queue.put`, while
  the request is queued or in a batch, while the model runs, or after it was answered.  The
  theorems quantify over every execution `lrun cap f linit as = some s`: every interleaving of
  departures with arrivals, admissions, batch formation and model latency. -/

/-- Departures never reach the server's own state: erasing them from an execution leaves an
    execution of the base system with the same final server state.  So everything proved above
    about `s.base` (conservation, FIFO order, progress) holds whoever leaves, and whenever. -/
theorem C17_leave_refines {cap : Nat} {f : P → R} {as : List (LAction P)} {s : LState P R}
    (hr : lrun cap f linit as = some s) : run cap f init (eraseLeaves as) = some s.base :=
  lrun_project hr

/-- With nobody leaving, the layered system is the base system. -/
theorem C17_leave_conservative {cap : Nat} {f : P → R} {as : List (Action P)} {b : State P R}
    (hr : run cap f init as = some b) :
    ∃ s, lrun cap f (linit : LState P R) (as.map .act) = some s ∧ s.base = b ∧ s.gone = [] :=
  lrun_of_run rfl hr

/-- Pairing: whatever a caller receives is `f` of the position IT submitted, no matter who left
    in the meantime (a departure never shifts rows between requesters). -/
theorem C17_leave_pairing {cap : Nat} {f : P → R} {as : List (LAction P)} {s : LState P R}
    (hr : lrun cap f linit as = some s) {i : Nat} {resp : R} (hd : (i, resp) ∈ s.delivered)
    {r : Req P} (hmem : r ∈ s.base.arrived) (hid : r.id = i) : resp = f r.position :=
  C17_pairing (lrun_project hr) ((linv_run linv_init hr).sub.subset hd) hmem hid

/-- No caller receives two responses. -/
theorem C17_leave_at_most_once {cap : Nat} {f : P → R} {as : List (LAction P)} {s : LState P R}
    (hr : lrun cap f linit as = some s) : (s.delivered.map (·.1)).Nodup := by
  have h := C17_at_most_once (lrun_project hr)
  unfold State.answeredIds at h
  exact ((linv_run linv_init hr).sub.map (·.1)).nodup h

/-- A caller that stays is served exactly as if nobody had left: once the server has answered its
    request, the caller holds `f` of its own position. -/
theorem C17_leave_stayers_served {cap : Nat} {f : P → R} {as : List (LAction P)} {s : LState P R}
    (hr : lrun cap f linit as = some s) {r : Req P} (hmem : r ∈ s.base.arrived)
    (hstay : r.id ∉ s.gone) (hans : r.id ∈ s.base.answeredIds) :
    (r.id, f r.position) ∈ s.delivered := by
  obtain ⟨x, hx, hxid⟩ := List.mem_map.mp hans
  have hresp : x.2 = f r.position :=
    C17_pairing (lrun_project hr) (i := x.1) (resp := x.2) hx hmem hxid.symm
  rcases (linv_run linv_init hr).cover x hx with h | h
  · exact absurd (hxid ▸ h) hstay
  · have : x = (r.id, f r.position) := Prod.ext hxid hresp
    exact this ▸ h

/-- Non-interference: two executions that differ only in who left, and when, deliver the same
    responses to every caller that stayed in both. -/
theorem C17_leave_noninterference {cap : Nat} {f : P → R} {as as' : List (LAction P)}
    {s s' : LState P R} (hr : lrun cap f linit as = some s) (hr' : lrun cap f linit as' = some s')
    (hsame : eraseLeaves as = eraseLeaves as') {x : Nat × R} (h1 : x.1 ∉ s.gone)
    (h2 : x.1 ∉ s'.gone) : x ∈ s.delivered ↔ x ∈ s'.delivered := by
  have hb : s.base = s'.base := by
    have a := lrun_project hr
    have b := lrun_project hr'
    rw [hsame] at a
    exact Option.some.inj (a.symm.trans b)
  have inv := linv_run linv_init hr
  have inv' := linv_run linv_init hr'
  constructor
  · intro h
    rcases inv'.cover x (hb ▸ inv.sub.subset h) with g | g
    · exact absurd g h2
    · exact g
  · intro h
    rcases inv.cover x (hb ▸ inv'.sub.subset h) with g | g
    · exact absurd g h1
    · exact g

/-- Progress is untouched by departures: a request at index `k` of the line is answered by the
    server after at most `k + 1` further completed model calls, and its caller, if it is still
    there, then holds its response. -/
theorem C17_leave_fifo_progress {cap : Nat} {f : P → R} {as₀ as : List (LAction P)}
    {s s' : LState P R} (hr₀ : lrun cap f linit as₀ = some s) {k : Nat} {r : Req P}
    (hmem : r ∈ s.base.arrived) (hk : (ids s.base.line)[k]? = some r.id)
    (hr : lrun cap f s as = some s') (hc : k + 1 ≤ completes (eraseLeaves as))
    (hstay : r.id ∉ s'.gone) : (r.id, f r.position) ∈ s'.delivered := by
  have hall : lrun cap f linit (as₀ ++ as) = some s' := lrun_append hr₀ hr
  have hans : r.id ∈ s'.base.answeredIds :=
    C17_fifo_progress (lrun_project hr₀) hk (lrun_project hr) hc
  have hmem' : r ∈ s'.base.arrived := by
    have := lrun_project hr
    exact arrived_mono_run this r hmem
  exact C17_leave_stayers_served hall hmem' hstay hans

/-- The bound for the whole line, parked callers included, with departures: under fair admission
    AMONG THE CALLERS THAT ARE STILL THERE (the first parked caller that has not left enters first;
    asyncio skips cancelled putters) a caller standing at index `k` of `order` — the line, in which
    a request whose caller left keeps its place until its batch is done, then the parked callers
    still present — holds its response after at most `k + 1` further completed model calls, unless
    it leaves.  Callers leaving ahead of it only shorten its wait. -/
theorem C17_leave_fifo_progress_putters {cap : Nat} {f : P → R} {as₀ as : List (LAction P)}
    {s s' : LState P R} (hr₀ : lrun cap f linit as₀ = some s) {k : Nat} {r : Req P}
    (hmem : r ∈ s.base.arrived) (hk : s.order[k]? = some r.id)
    (hfair : fairLRun cap f s as = true) (hr : lrun cap f s as = some s')
    (hc : k + 1 ≤ completes (eraseLeaves as)) (hstay : r.id ∉ s'.gone) :
    (r.id, f r.position) ∈ s'.delivered := by
  have hinv : Inv f s.base := inv_reachable (lrun_project hr₀)
  rcases lprogress as s s' k r.id hinv hfair hk hr hc with hans | hgone
  · exact C17_leave_stayers_served (lrun_append hr₀ hr)
      (arrived_mono_run (lrun_project hr) r hmem) hstay hans
  · exact absurd hgone hstay

/-- When the event loop is idle — the line is empty and every caller still parked has left —
    every caller that stayed holds the response for its own position. -/
theorem C17_leave_quiescent {cap : Nat} {f : P → R} {as : List (LAction P)} {s : LState P R}
    (hr : lrun cap f linit as = some s) (hline : s.base.line = [])
    (hparked : ∀ q ∈ s.base.putters, q.id ∈ s.gone) {r : Req P} (hmem : r ∈ s.base.arrived)
    (hstay : r.id ∉ s.gone) : (r.id, f r.position) ∈ s.delivered := by
  have inv := inv_reachable (lrun_project hr)
  have h1 := inv.count r.id
  have h2 : (ids s.base.arrived).count r.id = 1 := by
    rw [inv.nodup.count]
    simp [mem_ids hmem]
  have hpend : (ids s.base.pending).count r.id = 0 := by
    apply List.count_eq_zero.mpr
    intro hin
    obtain ⟨q, hq, hqid⟩ := List.mem_map.mp hin
    have hq' : q ∈ s.base.line ++ s.base.putters := by
      simpa [State.pending, State.line] using hq
    rw [hline, List.nil_append] at hq'
    exact hstay (hqid ▸ hparked q hq')
  have hans : r.id ∈ s.base.answeredIds := by
    apply Classical.byContradiction
    intro hn
    have := List.count_eq_zero.mpr hn
    omega
  exact C17_leave_stayers_served hr hmem hstay hans

/-- A parked caller that left never enters the queue: it is still parked, and still gone, in every
    later state (so it is never evaluated and never answered). -/
theorem C17_leave_parked_never_enters {cap : Nat} {f : P → R} {as : List (LAction P)}
    {s s' : LState P R} (hr : lrun cap f s as = some s') {r : Req P}
    (hp : r ∈ s.base.putters) (hg : r.id ∈ s.gone) : r ∈ s'.base.putters ∧ r.id ∈ s'.gone := by
  induction as generalizing s with
  | nil => simp only [lrun] at hr; cases hr; exact ⟨hp, hg⟩
  | cons a as ih =>
    simp only [lrun] at hr
    cases hstep : lstep cap f s a with
    | none => simp [hstep] at hr
    | some s1 =>
      simp only [hstep, Option.bind_some] at hr
      obtain ⟨h1, h2⟩ := gone_putter_step hstep hp hg
      exact ih hr h1 h2

/-- A trace with departures that the checker accepts is an execution of the layered system. -/
theorem C17_leave_trace_sound {cap : Nat} {f : List Nat → R} {es : List LEvent}
    {s s' : LState (List Nat) R} {n : Nat} (h : lcheckTrace cap f s n es = .ok s') :
    ∃ as, as.length = es.length ∧ lrun cap f s as = some s' :=
  lcheckTrace_sound h

/-- On a trace without departures the checker with departures IS the base checker: same verdict,
    same final server state (so extending the driver did not change what it says about the
    schedules of the base theorems). -/
theorem C17_leave_trace_conservative {cap : Nat} {f : List Nat → R} (es : List Event) :
    sameResult (lcheckTrace cap f (linit : LState (List Nat) R) 0 (es.map .ev))
      (checkTrace cap f init 0 es) :=
  lcheckTrace_noLeave es linit 0 rfl

section LeaveExamples

/-- capacity 1: 10 is queued, 11 and 12 are parked; 11 leaves while parked, 10 leaves while the
    model runs on its row; 12 enters, is evaluated and is the only caller that receives anything -/
def exLeave : List (LAction (List Nat)) :=
  [.act (.arrive ⟨10, [1, 2]⟩), .act (.arrive ⟨11, [3]⟩), .act (.arrive ⟨12, [4, 5]⟩),
   .leave 11, .act .take, .act .close, .leave 10, .act (.enter 1), .act .complete,
   .act .take, .act .close, .act .complete]

example : (lrun 1 exF linit exLeave).map (fun s =>
      (s.delivered, s.base.answered, s.gone, ids s.base.putters, ids s.base.line)) =
    some ([(12, 9)], [(10, 3), (12, 9)], [10, 11], [11], []) := by decide

/-- hypotheses of `C17_leave_fifo_progress_putters`: after the first four actions (11 has left
    while parked) caller 12 stands at index 1 of `order = [10, 12]` although it is the second
    parked caller; the rest of the execution is fair among the callers still there (12 enters
    first) and completes two batches -/
example : (lrun 1 exF linit (exLeave.take 4)).map (fun s =>
      (s.order, s.order[1]?, ids s.base.putters, fairLRun 1 exF s (exLeave.drop 4),
        completes (eraseLeaves (exLeave.drop 4)))) =
    some ([10, 12], some 12, [11, 12], true, 2) := by decide

/-- the caller that left while parked cannot enter any more -/
example : (lrun 1 exF linit (exLeave.take 6 ++ [.act .complete, .act (.enter 0)])).isNone = true := by
  decide

/-- hypotheses of `C17_leave_noninterference`: the same base actions with nobody leaving -/
example : (eraseLeaves exLeave).length = 10 ∧
    eraseLeaves ((eraseLeaves exLeave).map LAction.act) = eraseLeaves exLeave := by
  refine ⟨by decide, ?_⟩
  generalize eraseLeaves exLeave = l
  induction l with
  | nil => rfl
  | cons a l ih => simp [eraseLeaves, ih]

end LeaveExamples

end Tak.C17

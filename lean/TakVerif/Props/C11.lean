/-
  Property C11 — a self-play transcript is a legal game with correct outcome labels.

  Model:  `SelfPlay.playOneGame cfg outcome oracle`   (Model/SelfPlay.lean, the REPAIRED
          `play_one_game`), engine = oracle stream of per-ply answers.
  Spec:   `SelfPlay.TranscriptOK`                      (Spec/TranscriptOK.lean).

  Every theorem is for EVERY configuration (any size ≥ 1, any rational threshold, any integer
  ply limit), EVERY adjudication function `outcome` (in particular `Impl.winner` /
  `Spec.outcome` of property C02) and EVERY oracle stream whose consumed answers satisfy
  `AnswerOK` — what C08/C09/C10 guarantee of the search: children = moves accepted by
  `Impl.move` with the positions it returns, one probability per child forming a distribution
  (to accuracy `eps`), `|value| ≤ simulations ≥ 1`, sampled index in range.
  `h01` is the statement of `Tak.C01.C01_move_refines_rules` (taken as a hypothesis where
  legality or the successor prescribed by the rules is concluded).

  Notation in the statements:  `T.pos i`, `T.cands i`, `T.dist i`, `T.value i` are the i-th
  recorded position / candidate list / probability list / value (totalised `getD`, only used
  for `i < T.len`);  `(oracle i).chosen`, `(oracle i).v0` are the index sampled and the
  resignation signal at ply `i`.
-/
import TakVerif.Model.SelfPlay
import TakVerif.Spec.TranscriptOK
import TakVerif.Lemmas.SelfPlayLoop
import TakVerif.Props.C01

namespace Tak.C11

open Tak.SelfPlay Tak.SelfPlay.Transcript Tak.SelfPlay.Trace

section
variable (cfg : SelfPlayConfig) (eps : Rat) (outcome : Pos → Option (Option Color))
  (oracle : Nat → Answer)

/-- The loop terminates within its fuel `ply_limit + 2` — every iteration advances the ply by
    exactly one (`move_ok_ply`, proved from Model/Move.lean) — leaving through one of its three
    `break`s, never by an escaping IndexError; more fuel yields the same run. -/
theorem C11_terminates (hok : AnswersOK cfg eps outcome oracle) :
    (playRun cfg outcome oracle).stop.normal ∧
    ∀ k, playFrom cfg outcome (fuelFor cfg + k) oracle (initialPos cfg.size) = playRun cfg outcome oracle := by
  have hf := fuelFor_enough cfg
  have hn := stop_ne_outOfFuel (fuelFor cfg) oracle (initialPos cfg.size) hf.1 hf.2 hok
  refine ⟨hn, ?_⟩
  apply playFrom_fuel_mono
  intro h
  unfold playRun at hn
  rw [h] at hn
  exact hn

/-- **The model meets the specification**: the transcript of `play_one_game`, with the
    engine's resignation signals and sampled indices as the observer's trace and
    `Transcript.results` as labels, satisfies `TranscriptOK`. -/
theorem C11_model_satisfies_spec (h01 : MoveRefinesRules) (hsize : 1 ≤ cfg.size)
    (hok : AnswersOK cfg eps outcome oracle) :
    TranscriptOK cfg eps outcome (playOneGame cfg outcome oracle)
      (traceOf oracle (playOneGame cfg outcome oracle).len)
      (playOneGame cfg outcome oracle).results := by
  have hf := fuelFor_enough cfg
  exact (gameOK_playFrom h01 (fuelFor cfg) oracle (initialPos cfg.size) (initial_WF hsize) hf.1 hf.2 hok).2

/-- The recorded positions start at the initial position of the size; each next one is the
    rules' successor of the previous one under the candidate that was sampled there; every
    recorded candidate is legal in its position. -/
theorem C11_chain (h01 : MoveRefinesRules) (hsize : 1 ≤ cfg.size)
    (hok : AnswersOK cfg eps outcome oracle) :
    let T := playOneGame cfg outcome oracle
    (0 < T.len → T.pos 0 = initialPos cfg.size) ∧
    (∀ i, i + 1 < T.len →
      (oracle i).chosen < (T.cands i).length ∧
      T.pos (i + 1) = Rules.result (T.pos i) ((T.cands i).getD (oracle i).chosen default)) ∧
    (∀ i, i < T.len → ∀ m ∈ T.cands i, Rules.Legal (T.pos i) m) := by
  intro T
  have h : GameOK (initialPos cfg.size) cfg eps outcome T (traceOf oracle T.len) T.results :=
    C11_model_satisfies_spec cfg eps outcome oracle h01 hsize hok
  refine ⟨h.start, ?_, h.legal⟩
  intro i hi
  have := h.chain i hi
  unfold successor played at this
  rw [choice_traceOf oracle _ i (by omega)] at this
  exact this

/-- The four lists have one entry per position; within a position every candidate has its
    probability; the probabilities are a distribution (to `eps`); every value is in [-1, 1]. -/
theorem C11_aligned (hok : AnswersOK cfg eps outcome oracle) :
    let T := playOneGame cfg outcome oracle
    T.moves.length = T.positions.length ∧ T.probs.length = T.positions.length ∧
    T.values.length = T.positions.length ∧
    (∀ i, i < T.len → (T.dist i).length = (T.cands i).length ∧ DistOK eps (T.dist i) ∧
      -1 ≤ T.value i ∧ T.value i ≤ 1) := by
  intro T
  have hl := lengths_playFrom (cfg := cfg) (outcome := outcome) (fuelFor cfg) oracle (initialPos cfg.size)
  refine ⟨hl.1, hl.2.1, hl.2.2, ?_⟩
  intro i hi
  have hr := records_playFrom (cfg := cfg) (outcome := outcome) (fuelFor cfg) oracle (initialPos cfg.size) i hi
  have ha := hok i hi
  have hv := value_bound ha.sims ha.valueLo ha.valueHi
  show (T.dist i).length = (T.cands i).length ∧ DistOK eps (T.dist i) ∧ -1 ≤ T.value i ∧ T.value i ≤ 1
  unfold T playOneGame playRun
  rw [hr.1, hr.2.1, hr.2.2]
  exact ⟨by simpa using ha.lined, ha.dist, hv.1, hv.2⟩

/-- Play stops at the first stopping condition and nowhere else: no recorded position is past
    the ply limit or terminal; the engine did not resign before the last recorded position;
    and at the end either it resigned there, or the position reached by the last sampled move
    (the initial position if nothing was recorded) is past the ply limit or terminal. -/
theorem C11_stops (h01 : MoveRefinesRules) (hsize : 1 ≤ cfg.size)
    (hok : AnswersOK cfg eps outcome oracle) :
    let T := playOneGame cfg outcome oracle
    let fin := finalPos (initialPos cfg.size) T (traceOf oracle T.len)
    (∀ i, i < T.len → (T.pos i).ply ≤ cfg.plyLimit ∧ outcome (T.pos i) = none) ∧
    (∀ i, i + 1 < T.len → ¬ cfg.threshold ≤ (oracle i).v0.abs) ∧
    ((0 < T.len ∧ cfg.threshold ≤ (oracle (T.len - 1)).v0.abs) ∨
      cfg.plyLimit < fin.ply ∨ outcome fin ≠ none) := by
  intro T fin
  have h : GameOK (initialPos cfg.size) cfg eps outcome T (traceOf oracle T.len) T.results :=
    C11_model_satisfies_spec cfg eps outcome oracle h01 hsize hok
  refine ⟨h.live, ?_, ?_⟩
  · intro i hi
    have := h.noEarlyResignation i hi
    unfold ResignsAt at this
    rwa [v0_traceOf oracle _ i (by omega)] at this
  · have he := h.ending
    unfold EndOK at he
    by_cases hr : EndsByResignation cfg T (traceOf oracle T.len)
    · left
      refine ⟨hr.1, ?_⟩
      have := hr.2
      unfold ResignsAt at this
      rwa [v0_traceOf oracle _ _ (by have := hr.1; omega)] at this
    · right
      rw [if_neg hr] at he
      by_cases hp : cfg.plyLimit < fin.ply
      · exact .inl hp
      · right
        have := he.2
        rw [if_neg hp] at this
        show outcome fin ≠ none
        rw [this]
        simp

/-- The recorded result: by resignation — the side to move when it claimed the win
    (`v0 ≥ threshold`), its opponent otherwise (`v0 ≤ -threshold`); for a game cut off by the
    ply limit — none; for a game decided by the rules — the rules' winner (none for a draw). -/
theorem C11_result (h01 : MoveRefinesRules) (hsize : 1 ≤ cfg.size)
    (hok : AnswersOK cfg eps outcome oracle) :
    let T := playOneGame cfg outcome oracle
    let fin := finalPos (initialPos cfg.size) T (traceOf oracle T.len)
    let resigned := 0 < T.len ∧ cfg.threshold ≤ (oracle (T.len - 1)).v0.abs
    (resigned → cfg.threshold ≤ (oracle (T.len - 1)).v0 → T.result = some (T.pos (T.len - 1)).toMove) ∧
    (resigned → ¬ cfg.threshold ≤ (oracle (T.len - 1)).v0 →
      (oracle (T.len - 1)).v0 ≤ -cfg.threshold ∧ T.result = some (T.pos (T.len - 1)).toMove.flip) ∧
    (¬ resigned → cfg.plyLimit < fin.ply → T.result = none) ∧
    (¬ resigned → ¬ cfg.plyLimit < fin.ply → outcome fin = some T.result) := by
  intro T fin resigned
  have h : GameOK (initialPos cfg.size) cfg eps outcome T (traceOf oracle T.len) T.results :=
    C11_model_satisfies_spec cfg eps outcome oracle h01 hsize hok
  have he := h.ending
  unfold EndOK at he
  have hiff : resigned ↔ EndsByResignation cfg T (traceOf oracle T.len) := by
    unfold EndsByResignation ResignsAt
    constructor
    · intro ⟨h0, h1⟩
      exact ⟨h0, by rwa [v0_traceOf oracle _ _ (by omega)]⟩
    · intro ⟨h0, h1⟩
      exact ⟨h0, by rwa [v0_traceOf oracle _ _ (by omega)] at h1⟩
  refine ⟨?_, ?_, ?_, ?_⟩
  · intro hr hv
    rw [if_pos (hiff.1 hr), v0_traceOf oracle _ _ (by have := hr.1; omega), if_pos hv] at he
    exact he
  · intro hr hv
    rw [if_pos (hiff.1 hr), v0_traceOf oracle _ _ (by have := hr.1; omega), if_neg hv] at he
    refine ⟨?_, he⟩
    have habs := hr.2
    unfold Rat.abs at habs
    split at habs
    · exact absurd habs hv
    · grind
  · intro hr hp
    rw [if_neg (fun h => hr (hiff.2 h))] at he
    have := he.2
    rwa [if_pos hp] at this
  · intro hr hp
    rw [if_neg (fun h => hr (hiff.2 h))] at he
    have := he.2
    rwa [if_neg hp] at this

/-- The labels (`Transcript.results`): one per position; all 0 when there is no winner;
    otherwise +1 where the winner is to move and -1 where the loser is.  (Holds for every
    transcript the model can produce, whatever the engine answers.) -/
theorem C11_labels :
    let T := playOneGame cfg outcome oracle
    T.results.length = T.len ∧
    (T.result = none → ∀ i, i < T.len → T.results.getD i 0 = 0) ∧
    (∀ c, T.result = some c → ∀ i, i < T.len →
      ((T.pos i).toMove = c → T.results.getD i 0 = 1) ∧
      ((T.pos i).toMove = c.flip → T.results.getD i 0 = -1)) := by
  intro T
  refine ⟨results_length T, ?_, ?_⟩
  · intro hr i hi
    rw [results_getD T i hi, hr]
    rfl
  · intro c hr i hi
    rw [results_getD T i hi, hr]
    unfold labelFor
    constructor
    · intro h; simp [h]
    · intro h; simp [h]

/-- Consequence of `C11_chain`: the i-th recorded position has ply `i`, so a (non-empty)
    transcript holds at most `ply_limit + 1` positions. -/
theorem C11_ply (h01 : MoveRefinesRules) (hsize : 1 ≤ cfg.size)
    (hok : AnswersOK cfg eps outcome oracle) :
    let T := playOneGame cfg outcome oracle
    (∀ i, i < T.len → (T.pos i).ply = i) ∧ (0 < T.len → (T.len : Int) ≤ cfg.plyLimit + 1) := by
  intro T
  have h : GameOK (initialPos cfg.size) cfg eps outcome T (traceOf oracle T.len) T.results :=
    C11_model_satisfies_spec cfg eps outcome oracle h01 hsize hok
  have hply : ∀ i, i < T.len → (T.pos i).ply = i := by
    intro i
    induction i with
    | zero =>
      intro hi
      rw [h.start hi]
      rfl
    | succ j ih =>
      intro hi
      rw [(h.chain j hi).2]
      unfold successor
      rw [result_ply, ih (by omega)]
      omega
  refine ⟨hply, ?_⟩
  intro h0
  have hl := (h.live (T.len - 1) (by omega)).1
  rw [hply (T.len - 1) (by omega)] at hl
  omega

end

/-! ### Non-vacuity: concrete engines meeting the hypotheses, on 3x3

  `rowRoad` is a small adjudication used only here (a road along row 0); the theorems hold for
  every `outcome`.  The scripted engine offers one or two candidates per ply, with equal
  probabilities, `value/simulations = 1/2`, the scripted `v0` and the scripted choice; the
  children's positions are what `Impl.move` returns (checked by `decide` inside `AnswersOK`). -/
namespace Example

def rowRoad (p : Pos) : Option (Option Color) :=
  match p.sq 0 0, p.sq 1 0, p.sq 2 0 with
  | a :: _, b :: _, c :: _ =>
    if a.color = b.color ∧ b.color = c.color ∧ a.kind.isRoad ∧ b.kind.isRoad ∧ c.kind.isRoad then
      some (some a.color)
    else none
  | _, _, _ => none

def flat (x y : Nat) : Move := ⟨x, y, .placeFlat, none⟩

/-- a scripted line: per ply the candidates, the index sampled, and `v0` -/
abbrev Line := List (List Move × Nat × Rat)

def posAfter (init : Pos) (ms : List Move) : Pos := ms.foldl Rules.result init

def scripted (init : Pos) (line : Line) (i : Nat) : Answer :=
  let p := posAfter init ((line.take i).map fun e => e.1.getD e.2.1 default)
  match line[i]? with
  | none => default
  | some (cands, k, v0) =>
    ⟨cands.map fun m => (m, Rules.result p m), cands.map fun _ => 1 / (cands.length : Rat), 1, 2, v0, k⟩

/-- White builds a road along row 0 with its third stone (ply 4). -/
def roadLine : Line :=
  [([flat 0 2, flat 1 1], 0, 0), ([flat 0 0], 0, 1/4), ([flat 2 2, flat 1 0], 1, -1/4),
   ([flat 1 2], 0, 0), ([flat 2 0], 0, 1/2)]

def cfgA : SelfPlayConfig := ⟨3, 9/10, 20⟩
def engineA : Nat → Answer := scripted (initialPos 3) roadLine

/-- hypotheses of the theorems are met by a five-ply game that ends with a road -/
example : AnswersOK cfgA 0 rowRoad engineA := by decide +kernel

example :
    (playOneGame cfgA rowRoad engineA).len = 5 ∧
    (playOneGame cfgA rowRoad engineA).result = some .white ∧
    (playOneGame cfgA rowRoad engineA).results = [1, -1, 1, -1, 1] ∧
    (playRun cfgA rowRoad engineA).stop = .decided := by decide +kernel

/-- the specification itself holds of that transcript (evaluated, no appeal to C01) … -/
example :
    TranscriptOK cfgA 0 rowRoad (playOneGame cfgA rowRoad engineA)
      (traceOf engineA 5) (playOneGame cfgA rowRoad engineA).results := by decide +kernel

/-- … and rejects the same game recorded without its winner (finding F3) … -/
example :
    ¬ TranscriptOK cfgA 0 rowRoad { playOneGame cfgA rowRoad engineA with result := none }
      (traceOf engineA 5) [0, 0, 0, 0, 0] := by decide +kernel

/-- … or with a position dropped from the chain. -/
example :
    ¬ TranscriptOK cfgA 0 rowRoad
      { playOneGame cfgA rowRoad engineA with
          positions := (playOneGame cfgA rowRoad engineA).positions.eraseIdx 2 }
      (traceOf engineA 5) (playOneGame cfgA rowRoad engineA).results := by decide +kernel

/-- Resignation exactly at the threshold: at ply 2 White (to move) sees `v0 = -9/10` and
    resigns, Black wins; the resigning position is the last one recorded. -/
def resignLine : Line :=
  [([flat 0 2, flat 1 1], 1, 0), ([flat 0 0], 0, 89/100), ([flat 2 2, flat 1 0], 1, -9/10)]

def engineB : Nat → Answer := scripted (initialPos 3) resignLine

example : AnswersOK cfgA 0 rowRoad engineB := by decide +kernel

example :
    (playOneGame cfgA rowRoad engineB).len = 3 ∧
    (playOneGame cfgA rowRoad engineB).result = some .black ∧
    (playOneGame cfgA rowRoad engineB).results = [-1, 1, -1] ∧
    (playRun cfgA rowRoad engineB).stop = .resigned := by decide +kernel

/-- Ply limit 1: positions of ply 0 and 1 are recorded, the position of ply 2 exceeds the
    limit; no winner, all labels 0 (finding F4 on the pinned tree). -/
def cfgC : SelfPlayConfig := ⟨3, 9/10, 1⟩

example : AnswersOK cfgC 0 rowRoad engineA := by decide +kernel

example :
    (playOneGame cfgC rowRoad engineA).len = 2 ∧
    (playOneGame cfgC rowRoad engineA).result = none ∧
    (playOneGame cfgC rowRoad engineA).results = [0, 0] ∧
    (playRun cfgC rowRoad engineA).stop = .cutoff := by decide +kernel

example :
    TranscriptOK cfgC 0 rowRoad (playOneGame cfgC rowRoad engineA)
      (traceOf engineA 2) (playOneGame cfgC rowRoad engineA).results := by decide +kernel

/-- the labelling of finding F4 (every label -1 in a ply-limited game) is rejected -/
example :
    ¬ TranscriptOK cfgC 0 rowRoad (playOneGame cfgC rowRoad engineA) (traceOf engineA 2) [-1, -1] := by
  decide +kernel

end Example

/-! ### closed forms: the hypothesis `h01` is C01's refinement theorem -/

/-- `MoveRefinesRules` holds: it is exactly `C01_move_refines_rules`. -/
theorem C11_h01 : MoveRefinesRules := fun p m h => Tak.C01.C01_move_refines_rules p m h

/-- The model meets the specification, with no hypothesis left about the move model. -/
theorem C11_model_satisfies_spec_closed (cfg : SelfPlayConfig) (eps : Rat)
    (outcome : Pos → Option (Option Color)) (oracle : Nat → Answer) (hsize : 1 ≤ cfg.size)
    (hok : AnswersOK cfg eps outcome oracle) :
    TranscriptOK cfg eps outcome (playOneGame cfg outcome oracle)
      (traceOf oracle (playOneGame cfg outcome oracle).len)
      (playOneGame cfg outcome oracle).results :=
  C11_model_satisfies_spec cfg eps outcome oracle C11_h01 hsize hok

/-! ### closed forms for the actual adjudication model

  `outcome := winnerOutcome`, i.e. `Impl.winner` of Model/Winner.lean read as the loop reads
  `position.winner()`; `Tak.C02.C02_winner_spec` proves `Impl.winner p = Spec.outcome p` for every
  well-formed `p`, so these statements speak about the rules' adjudication.  No hypothesis is left
  except the size and the guarantees about the engine. -/

/-- The model of `play_one_game` with the model of `Position.winner()` meets the specification. -/
theorem C11_model_satisfies_spec_winner (cfg : SelfPlayConfig) (eps : Rat) (oracle : Nat → Answer)
    (hsize : 1 ≤ cfg.size) (hok : AnswersOK cfg eps winnerOutcome oracle) :
    TranscriptOK cfg eps winnerOutcome (playOneGame cfg winnerOutcome oracle)
      (traceOf oracle (playOneGame cfg winnerOutcome oracle).len)
      (playOneGame cfg winnerOutcome oracle).results :=
  C11_model_satisfies_spec cfg eps winnerOutcome oracle C11_h01 hsize hok

/-- `C11_chain` for the actual adjudication, `h01` discharged. -/
theorem C11_chain_winner (cfg : SelfPlayConfig) (eps : Rat) (oracle : Nat → Answer)
    (hsize : 1 ≤ cfg.size) (hok : AnswersOK cfg eps winnerOutcome oracle) :
    let T := playOneGame cfg winnerOutcome oracle
    (0 < T.len → T.pos 0 = initialPos cfg.size) ∧
    (∀ i, i + 1 < T.len →
      (oracle i).chosen < (T.cands i).length ∧
      T.pos (i + 1) = Rules.result (T.pos i) ((T.cands i).getD (oracle i).chosen default)) ∧
    (∀ i, i < T.len → ∀ m ∈ T.cands i, Rules.Legal (T.pos i) m) :=
  C11_chain cfg eps winnerOutcome oracle C11_h01 hsize hok

/-- `C11_stops` for the actual adjudication, `h01` discharged. -/
theorem C11_stops_winner (cfg : SelfPlayConfig) (eps : Rat) (oracle : Nat → Answer)
    (hsize : 1 ≤ cfg.size) (hok : AnswersOK cfg eps winnerOutcome oracle) :
    let T := playOneGame cfg winnerOutcome oracle
    let fin := finalPos (initialPos cfg.size) T (traceOf oracle T.len)
    (∀ i, i < T.len → (T.pos i).ply ≤ cfg.plyLimit ∧ winnerOutcome (T.pos i) = none) ∧
    (∀ i, i + 1 < T.len → ¬ cfg.threshold ≤ (oracle i).v0.abs) ∧
    ((0 < T.len ∧ cfg.threshold ≤ (oracle (T.len - 1)).v0.abs) ∨
      cfg.plyLimit < fin.ply ∨ winnerOutcome fin ≠ none) :=
  C11_stops cfg eps winnerOutcome oracle C11_h01 hsize hok

/-- `C11_result` for the actual adjudication, `h01` discharged. -/
theorem C11_result_winner (cfg : SelfPlayConfig) (eps : Rat) (oracle : Nat → Answer)
    (hsize : 1 ≤ cfg.size) (hok : AnswersOK cfg eps winnerOutcome oracle) :
    let T := playOneGame cfg winnerOutcome oracle
    let fin := finalPos (initialPos cfg.size) T (traceOf oracle T.len)
    let resigned := 0 < T.len ∧ cfg.threshold ≤ (oracle (T.len - 1)).v0.abs
    (resigned → cfg.threshold ≤ (oracle (T.len - 1)).v0 → T.result = some (T.pos (T.len - 1)).toMove) ∧
    (resigned → ¬ cfg.threshold ≤ (oracle (T.len - 1)).v0 →
      (oracle (T.len - 1)).v0 ≤ -cfg.threshold ∧ T.result = some (T.pos (T.len - 1)).toMove.flip) ∧
    (¬ resigned → cfg.plyLimit < fin.ply → T.result = none) ∧
    (¬ resigned → ¬ cfg.plyLimit < fin.ply → winnerOutcome fin = some T.result) :=
  C11_result cfg eps winnerOutcome oracle C11_h01 hsize hok

/-- non-vacuity with the actual adjudication: the five-ply road game of the examples above
    (White's road along row 0 is found by the flood fill of `Impl.winner`) -/
example : AnswersOK Example.cfgA 0 winnerOutcome Example.engineA := by decide +kernel

example :
    (playOneGame Example.cfgA winnerOutcome Example.engineA).len = 5 ∧
    (playOneGame Example.cfgA winnerOutcome Example.engineA).result = some .white ∧
    (playRun Example.cfgA winnerOutcome Example.engineA).stop = .decided := by decide +kernel

end Tak.C11

/-
  C08 — search-tree bookkeeping is exact and every expansion is legal.

  Model: TakVerif/Model/Tree.lean (mcts.py: descend / populate / update / analyze_tree; sampler and
  evaluator are input streams).  Specification: TakVerif/Spec/TreeInv.lean (`TreeInv`, from the
  property text).  The theorems hold for EVERY table of moves, every game-over test, every cutoff,
  every stream of sampler choices and evaluator answers, every start tree satisfying the invariant
  (fresh or re-used), every budget.

  Legality of the expansions rests on `Tak.C01.C01_move_refines_rules`
      p.WF → Impl.move p m = if Rules.Legal p m then .ok (Rules.result p m) else .error .illegal
  (Props/C01.lean), used through `Tree.c01Hyp`; the lemmas in Lemmas/Tree*.lean take it as the
  explicit hypothesis `C01Hyp`.
-/
import TakVerif.Lemmas.TreeReal

namespace Tak.C08
open Tak.Tree

/-- One simulation (whatever the sampler chose, whatever the evaluator answered) preserves the
    tree invariant and adds exactly one visit to the root.  (The hypothesis "at least one legal id
    reaches the cutoff" is not needed for preservation; it is what lets the NEXT descent through the
    node pick a child, see `C08_expanded_has_children`.) -/
theorem C08_inv_preserved (cfg : Cfg) (tol : Tol) (hp : 0 ≤ tol.ptol) (hv : 0 ≤ tol.vtol)
    (choices : List Nat) (answers : List Answer) (t t' : Node) (choices' : List Nat) (answers' : List Answer)
    (hinv : TreeInv cfg tol t) (h : simulate cfg choices answers t = some (t', choices', answers')) :
    TreeInv cfg tol t' ∧ t'.sims = t.sims + 1 := by
  have := simulate_spec c01Hyp cfg tol hp hv choices answers t _ hinv h
  exact ⟨this.1, this.2.1⟩

/-- A search with budget `n ≥ 1` from a tree satisfying the invariant — a fresh root or a tree left
    by an earlier search — returns a tree satisfying the invariant whose root has exactly
    `max n (visits before)` visits: exactly `n` for a fresh tree. -/
theorem C08_analyze (cfg : Cfg) (tol : Tol) (hp : 0 ≤ tol.ptol) (hv : 0 ≤ tol.vtol)
    (n : Nat) (hn : 0 < n) (t t' : Node) (choices : List Nat) (answers : List Answer)
    (hinv : TreeInv cfg tol t) (h : analyzeTree cfg n t choices answers = some t') :
    TreeInv cfg tol t' ∧ t'.sims = max n t.sims := by
  have := analyzeLoop_spec c01Hyp cfg tol hp hv n hn n t choices answers t' hinv h (by omega)
  exact ⟨this.1, this.2.1⟩

/-- A tree that has already used up the budget is returned as it is: a search with budget `n` on a
    tree whose root has `n` or more visits runs no simulation, asks the evaluator nothing and draws
    nothing (re-searching a tree "with the budget it already has" is a no-op — the case the tie
    exercises with `reuse = budget` and `extra = 0`). -/
theorem C08_analyze_used_up (cfg : Cfg) (n : Nat) (hn : 0 < n) (t : Node) (hused : n ≤ t.sims)
    (choices : List Nat) (answers : List Answer) :
    analyzeTree cfg n t choices answers = some t := by
  unfold analyzeTree analyzeLoop
  simp [hn, hused]

/-- the same for a search started on a position: the root has exactly `n` visits -/
theorem C08_analyze_fresh (cfg : Cfg) (tol : Tol) (hp : 0 ≤ tol.ptol) (hv : 0 ≤ tol.vtol)
    (n : Nat) (hn : 0 < n) (p : Pos) (hwf : p.WF) (t' : Node) (choices : List Nat) (answers : List Answer)
    (h : analyze cfg n p choices answers = some t') :
    TreeInv cfg tol t' ∧ t'.sims = n := by
  have := C08_analyze cfg tol hp hv n hn (fresh p none) t' choices answers
    (fresh_inv cfg tol p none hwf) h
  refine ⟨this.1, ?_⟩
  rw [this.2]; simp [fresh]

/-- The searched position is left untouched: the root of the returned tree holds the position (and
    the move) the search was started with.  (Immutability of the Python object itself is C05's
    monitor; the harness snapshots the searched position around every search.) -/
theorem C08_position_untouched (cfg : Cfg) (tol : Tol) (hp : 0 ≤ tol.ptol) (hv : 0 ≤ tol.vtol)
    (n : Nat) (hn : 0 < n) (t t' : Node) (choices : List Nat) (answers : List Answer)
    (hinv : TreeInv cfg tol t) (h : analyzeTree cfg n t choices answers = some t') :
    t'.position = t.position ∧ t'.move = t.move := by
  have := analyzeLoop_spec c01Hyp cfg tol hp hv n hn n t choices answers t' hinv h (by omega)
  exact ⟨this.2.2.1, this.2.2.2⟩

/-- Every expansion is legal: at every node of a tree satisfying the invariant, each child carries
    a move that the rules allow in the node's position, and holds the position the rules prescribe
    after that move. -/
theorem C08_children_legal (cfg : Cfg) (tol : Tol) (t : Node) (hinv : TreeInv cfg tol t) :
    t.All fun n => ∀ cs, n.children = some cs → ∀ c ∈ cs,
      ∃ m, c.move = some m ∧ Rules.Legal n.position m ∧ c.position = Rules.result n.position m := by
  refine Node.All.imp ?_ hinv
  intro n hloc cs hc c hm
  have ho := outcome_none_of_expanded hloc hc
  obtain ⟨_, ev, _, hok⟩ := (local_expanded ho hc).1 hloc
  have h1 : c.move ∈ cs.map (·.move) := List.mem_map.2 ⟨c, hm, rfl⟩
  rw [hok.moves] at h1
  obtain ⟨x, hx, hxm⟩ := List.mem_map.1 h1
  have hsel := (List.mem_filter.1 hx).2
  simp only [Bool.and_eq_true, decide_eq_true_eq] at hsel
  exact ⟨x.1, hxm.symm, hsel.2, hok.positions c hm x.1 hxm.symm⟩

/-- an expanded node has one child per selected (move, prior) pair; in particular it has a child as
    soon as one legal move reaches the cutoff -/
theorem C08_expanded_has_children (cfg : Cfg) (tol : Tol) (t : Node) (hinv : TreeInv cfg tol t)
    (cs : List Node) (hc : t.children = some cs) :
    ∃ ev, t.ev = some ev ∧ cs.length = (selected cfg t.position ev).length := by
  have hloc := hinv.here
  have ho := outcome_none_of_expanded hloc hc
  obtain ⟨_, ev, hev, hok⟩ := (local_expanded ho hc).1 hloc
  refine ⟨ev, hev, ?_⟩
  have := congrArg List.length hok.moves
  simpa using this

/-- Child priors are the evaluator's priors renormalised: with a positive cutoff, the priors of an
    expanded node with at least one child are positive and sum to one (exact model, `tol = 0`). -/
theorem C08_priors_normalised (cfg : Cfg) (hcut : 0 < cfg.cutoff) (t : Node) (hinv : TreeInv cfg Tol.exact t)
    (cs : List Node) (hc : t.children = some cs) (hne : cs ≠ []) :
    t.priors.sum = 1 ∧ ∀ x ∈ t.priors, 0 < x := by
  have hloc := hinv.here
  have ho := outcome_none_of_expanded hloc hc
  obtain ⟨_, ev, hev, hok⟩ := (local_expanded ho hc).1 hloc
  have hlen : cs.length = (selected cfg t.position ev).length := by
    have := congrArg List.length hok.moves
    simpa using this
  set sel := selected cfg t.position ev with hsel
  have hpos : ∀ x ∈ sel, 0 < x.2 := by
    intro x hx
    have := (List.mem_filter.1 hx).2
    simp only [Bool.and_eq_true, decide_eq_true_eq] at this
    exact lt_of_lt_of_le hcut this.1
  have hmass : 0 < selectedMass cfg t.position ev := by
    unfold selectedMass
    rw [← hsel]
    have hne' : sel ≠ [] := by
      intro h; rw [h] at hlen; exact hne (List.length_eq_zero_iff.1 hlen)
    clear_value sel
    cases sel with
    | nil => exact absurd rfl hne'
    | cons a r =>
      simp only [List.map_cons, List.sum_cons]
      have h1 := hpos a List.mem_cons_self
      have h2 : 0 ≤ (r.map (·.2)).sum := by
        apply List.sum_nonneg
        intro x hx
        obtain ⟨y, hy, rfl⟩ := List.mem_map.1 hx
        exact le_of_lt (hpos y (List.mem_cons_of_mem _ hy))
      linarith
  -- with zero tolerance the priors are exactly the selected priors over their mass
  have hexact : t.priors = sel.map fun c => c.2 / selectedMass cfg t.position ev := by
    apply List.ext_getElem
    · rw [List.length_map]; exact hok.priorsLen
    · intro i h1 h2
      have hi : i < sel.length := by rw [List.length_map] at h2; exact h2
      have hz : (t.priors[i], sel[i]) ∈ t.priors.zip sel := by
        have : (t.priors.zip sel)[i]'(by rw [List.length_zip]; omega) = (t.priors[i], sel[i]) := by
          simp
        rw [← this]; exact List.getElem_mem _
      have := hok.priors _ hz
      simp only [Tol.exact_ptol, zero_mul] at this
      have h0 : rabs (t.priors[i] - sel[i].2 / selectedMass cfg t.position ev) = 0 :=
        le_antisymm this (rabs_nonneg _)
      rw [rabs_eq_abs, abs_eq_zero, sub_eq_zero] at h0
      rw [h0]; simp
  constructor
  · rw [hexact]
    have : (sel.map fun c => c.2 / selectedMass cfg t.position ev) =
        (sel.map (·.2)).map (· / selectedMass cfg t.position ev) := by
      rw [List.map_map]; rfl
    rw [this, sum_div]
    unfold selectedMass
    rw [← hsel]
    exact div_self (ne_of_gt (by unfold selectedMass at hmass; rw [← hsel] at hmass; exact hmass))
  · intro x hx
    rw [hexact] at hx
    obtain ⟨y, hy, rfl⟩ := List.mem_map.1 hx
    exact div_pos (hpos y hy) hmass

/-- If every evaluation recorded in the tree has absolute value at most 1, the accumulated value of
    every node is bounded by its visit count (exact model, `tol = 0`). -/
theorem C08_value_bound (cfg : Cfg) (t : Node) (hinv : TreeInv cfg Tol.exact t)
    (hb : t.All fun n => ∀ e, n.ev = some e → |e.value| ≤ 1) :
    t.All fun n => |n.value| ≤ (n.sims : Rat) := by
  induction hinv with
  | mk t hloc hch ih =>
    refine Node.All.mk t ?_ (fun cs hc c hm => ih cs hc c hm (hb.child hc hm))
    cases ho : cfg.outcome t.position with
    | some w =>
      obtain ⟨_, _, _, hval⟩ := (local_terminal ho).1 hloc
      rw [hval, abs_mul, Nat.abs_cast]
      have := abs_outcomeValue_le t.position.toMove w
      have h0 : (0 : Rat) ≤ t.sims := Nat.cast_nonneg _
      nlinarith
    | none =>
      cases hc : t.children with
      | none =>
        obtain ⟨_, _, hval⟩ := (local_unexpanded ho hc).1 hloc
        rw [hval]; simp
      | some cs =>
        obtain ⟨_, ev, hev, hok⟩ := (local_expanded ho hc).1 hloc
        have hkids : ∀ c ∈ cs, |c.value| ≤ (c.sims : Rat) := fun c hm =>
          (ih cs hc c hm (hb.child hc hm)).here
        have hsum := abs_sum_le_of_forall cs hkids
        have hv0 : |t.v0| ≤ 1 := by rw [hok.own]; exact hb.here ev hev
        have hval := hok.value
        simp only [Tol.exact_vtol, zero_mul] at hval
        have h0 : rabs (t.value - (t.v0 - (cs.map (·.value)).sum)) = 0 := le_antisymm hval (rabs_nonneg _)
        rw [rabs_eq_abs, abs_eq_zero, sub_eq_zero] at h0
        rw [h0, hok.visits]
        push_cast at hsum ⊢
        calc |t.v0 - (cs.map (·.value)).sum| ≤ |t.v0| + |(cs.map (·.value)).sum| := abs_sub _ _
          _ ≤ 1 + _ := by linarith

/-- Progress: from a tree satisfying the invariant one simulation returns whenever the oracle
    streams feed it (`Feeds`: the sampler names existing children, the evaluator answers at a live
    leaf) — no move the table offers can make the expansion raise. -/
theorem C08_simulate_total (cfg : Cfg) (tol : Tol)
    (choices : List Nat) (answers : List Answer) (t : Node)
    (hinv : TreeInv cfg tol t) (hf : Feeds cfg true choices answers t) :
    (simulate cfg choices answers t).isSome = true := by
  rw [simulate_eq_simRec, Option.isSome_map]
  exact simRec_isSome c01Hyp cfg tol choices true answers t hinv hf

/-! ### Closed corollaries for the real engine

  `realCfg cutoff noise mix` fixes the two parameters the generic theorems leave open: the game-over
  test is `Impl.winner` (equal to the rule book's `Spec.outcome` by `C02_winner_spec`) and the move
  table is `Gen.allMovesForSize` (every legal move exactly once: `C03_legal_has_id`,
  `C07_table_nodup`).  Nothing else is assumed. -/

/-- The headline statement for the real engine: a search with budget `n ≥ 1` (adjudication by
    `Impl.winner`, ids decoded by the real move table) from a tree satisfying the invariant returns
    a tree satisfying it, with exactly `max n (visits before)` root visits and the searched position
    untouched. -/
theorem C08_analyze_real (cutoff : Rat) (noise : Bool) (mix : Rat) (tol : Tol) (hp : 0 ≤ tol.ptol)
    (hv : 0 ≤ tol.vtol) (n : Nat) (hn : 0 < n) (t t' : Node) (choices : List Nat) (answers : List Answer)
    (hinv : TreeInv (realCfg cutoff noise mix) tol t)
    (h : analyzeTree (realCfg cutoff noise mix) n t choices answers = some t') :
    TreeInv (realCfg cutoff noise mix) tol t' ∧ t'.sims = max n t.sims ∧ t'.position = t.position := by
  have h1 := C08_analyze (realCfg cutoff noise mix) tol hp hv n hn t t' choices answers hinv h
  have h2 := C08_position_untouched (realCfg cutoff noise mix) tol hp hv n hn t t' choices answers hinv h
  exact ⟨h1.1, h1.2, h2.1⟩

/-- … started on a well-formed position: exactly `n` root visits -/
theorem C08_analyze_fresh_real (cutoff : Rat) (noise : Bool) (mix : Rat) (n : Nat) (hn : 0 < n) (p : Pos)
    (hwf : p.WF) (t' : Node) (choices : List Nat) (answers : List Answer)
    (h : analyze (realCfg cutoff noise mix) n p choices answers = some t') :
    TreeInv (realCfg cutoff noise mix) Tol.exact t' ∧ t'.sims = n ∧ t'.position = p := by
  have hz : (0 : Rat) ≤ 0 := le_refl _
  have h1 := C08_analyze_fresh (realCfg cutoff noise mix) Tol.exact hz hz n hn p hwf t' choices answers h
  have h2 := C08_position_untouched (realCfg cutoff noise mix) Tol.exact hz hz n hn (fresh p none) t'
    choices answers (fresh_inv _ _ p none hwf) h
  exact ⟨h1.1, h1.2, h2.1⟩

/-- Terminal nodes, by the rule book: at every node whose position the rules declare over
    (`Spec.outcome` gives a reason — road, full board or exhausted reserve — with winner `w`, `none`
    for a draw), the node is never expanded, its accumulated value is visits × outcome and, once
    visited, its own value is the outcome: +1 / −1 / 0 for the side to move.  At every node the
    rules do not declare over, an unexpanded node has no visits. -/
theorem C08_terminal_real (cutoff : Rat) (noise : Bool) (mix : Rat) (tol : Tol) (t : Node)
    (hinv : TreeInv (realCfg cutoff noise mix) tol t) :
    t.All fun n =>
      (∀ w r, Spec.outcome n.position = (w, some r) →
        n.children = none ∧ n.value = n.sims * outcomeValue n.position.toMove w ∧
        (0 < n.sims → n.v0 = outcomeValue n.position.toMove w)) ∧
      (∀ w, Spec.outcome n.position = (w, none) → n.children = none → n.sims = 0 ∧ n.value = 0) := by
  refine Node.All.imp ?_ hinv
  intro n hloc
  have hwf : n.position.WF := by unfold Local at hloc; exact hloc.1
  have hreal : (realCfg cutoff noise mix).outcome n.position = specOutcome n.position :=
    realOutcome_eq_spec n.position hwf
  constructor
  · intro w r ho
    have : (realCfg cutoff noise mix).outcome n.position = some w := by
      rw [hreal]; unfold specOutcome; rw [ho]
    obtain ⟨_, h1, h2, h3⟩ := (local_terminal this).1 hloc
    exact ⟨h1, h3, h2⟩
  · intro w ho hc
    have : (realCfg cutoff noise mix).outcome n.position = none := by
      rw [hreal]; unfold specOutcome; rw [ho]
    obtain ⟨_, h1, h2⟩ := (local_unexpanded this hc).1 hloc
    exact ⟨h1, h2⟩

/-- Children versus the legal moves, for the real move table: at every expanded node the children's
    moves are pairwise different, each is legal and its child holds the position the rules
    prescribe, and a legal move `m` (in the plain form the table stores) is the move of a child
    exactly when the effective prior at ITS id — `encode_move(size, m)`, which exists and is the
    only id decoding to `m` — reaches the cutoff.  So children are one-to-one with the legal moves
    whose prior reaches the cutoff. -/
theorem C08_children_legal_real (cutoff : Rat) (noise : Bool) (mix : Rat) (tol : Tol) (t : Node)
    (hinv : TreeInv (realCfg cutoff noise mix) tol t) :
    t.All fun n => ∀ cs, n.children = some cs → ∃ ev, n.ev = some ev ∧
      (cs.map (·.move)).Nodup ∧
      (∀ c ∈ cs, ∃ m, c.move = some m ∧ Rules.Legal n.position m ∧ c.position = Rules.result n.position m) ∧
      (∀ m, Rules.Legal n.position m → m.Plain →
        ∃ i, Gen.encodeMove n.position.size m = some i ∧ Gen.decodeMove n.position.size i = some m ∧
          (some m ∈ cs.map (·.move) ↔
            ∃ pr, (effectivePrior (realCfg cutoff noise mix) ev)[i]? = some pr ∧ cutoff ≤ pr)) := by
  have hleg := C08_children_legal (realCfg cutoff noise mix) tol t hinv
  induction hinv with
  | mk n hloc hch ih =>
    refine Node.All.mk n ?_ (fun cs hc c hm => ih cs hc c hm (hleg.child hc hm))
    intro cs hc
    have ho := outcome_none_of_expanded hloc hc
    obtain ⟨hwf, ev, hev, hok⟩ := (local_expanded ho hc).1 hloc
    refine ⟨ev, hev, ?_, hleg.here cs hc, ?_⟩
    · rw [hok.moves]
      have := selected_real_nodup cutoff noise mix n.position ev
      have h2 : (selected (realCfg cutoff noise mix) n.position ev).map (fun c => some c.1) =
          ((selected (realCfg cutoff noise mix) n.position ev).map (·.1)).map some := by
        rw [List.map_map]; rfl
      rw [h2]
      exact nodup_map_some _ this
    · intro m hl hpl
      obtain ⟨i, hi1, hi2⟩ := Tak.C03.C03_legal_has_id n.position m hwf hl hpl
      refine ⟨i, hi1, hi2, ?_⟩
      rw [hok.moves]
      constructor
      · intro hmem
        obtain ⟨x, hx, hxm⟩ := List.mem_map.1 hmem
        obtain ⟨m', pr⟩ := x
        simp only [Option.some.injEq] at hxm
        subst hxm
        obtain ⟨j, hj1, hj2, hj3, _⟩ := (selected_real_mem cutoff noise mix n.position ev m' pr).1 hx
        have := decode_id_unique n.position.size j m' hj1
        rw [hi1] at this
        cases this
        exact ⟨pr, hj2, hj3⟩
      · rintro ⟨pr, h1, h2⟩
        exact List.mem_map.2 ⟨(m, pr),
          (selected_real_mem cutoff noise mix n.position ev m pr).2 ⟨i, hi2, h1, h2, hl⟩, rfl⟩

/-! ### Non-vacuity: a concrete search (3×3 opening position, a three-move table, three simulations)

  The hypotheses of the theorems above are met by concrete non-trivial values: the fresh root
  satisfies `TreeInv`; the search returns; the returned tree (root + 2 children, both expanded on a
  single legal move, one of them with prior exactly at the cutoff; root priors 7/11, 4/11 after noise) satisfies `TreeInv` with zero tolerance, has exactly 3 root visits, the root
  position untouched, and its streams `Feeds` a further simulation.   -/

def exCfg : Cfg :=
  { cutoff := 1 / 1000000, noise := true, mix := 1 / 4, outcome := fun _ => none,
    table := fun _ => [⟨0, 0, .placeFlat, none⟩, ⟨1, 0, .placeFlat, none⟩, ⟨0, 0, .placeStanding, none⟩,
                       ⟨0, 0, .right, some [1]⟩] }

def exPos : Pos := Pos.fromConfig (Config.standard 3)

def exAnswers : List Answer :=
  [⟨[1 / 2, 1 / 4, 1 / 8, 1 / 8, 1], 1 / 2, some [1 / 4, 1 / 4, 1 / 4, 1 / 4]⟩,
   ⟨[1 / 2, 1 / 2, 0, 0], -1 / 4, none⟩, ⟨[1 / 1000000, 1 / 1000000, 1 / 2000000], 1, none⟩, ⟨[1, 1], 0, none⟩]

example : TreeInv exCfg Tol.exact (fresh exPos none) := fresh_inv _ _ _ _ (by decide)

example : (analyze exCfg 3 exPos [0, 1, 0] exAnswers).all (fun t =>
    t.sims == 3 && decide (t.value = -1 / 4) && decide (t.priors = [7 / 11, 4 / 11]) &&
    ((t.children.getD []).map fun c => (c.sims, (c.children.getD []).length)) == [(1, 1), (1, 1)] &&
    decide (((t.children.getD []).map fun c => c.value) = [-1 / 4, 1]) &&
    decide (((t.children.getD []).map fun c => c.priors) = [[1], [1]])) = true := by
  decide +kernel

example : (analyze exCfg 3 exPos [0, 1, 0] exAnswers).all (fun t =>
    decide (TreeInv exCfg Tol.exact t) && t.sims == 3 && decide (t.position = exPos) &&
    (t.firstFail fun n => if rabs n.value ≤ n.sims then none else some "bound").isNone) = true := by
  decide +kernel

/-- the real configuration on the 3×3 opening: 135 ids, 9 legal first moves, two simulations -/
example : (analyze (realCfg (1 / 1000000) false (1 / 4)) 2 exPos [4]
      [⟨List.replicate 135 (1 / 256), 1 / 2, none⟩, ⟨List.replicate 4572 (1 / 8192), -1 / 2, none⟩]).all (fun t =>
    decide (TreeInv (realCfg (1 / 1000000) false (1 / 4)) Tol.exact t) && t.sims == 2 &&
    (t.children.getD []).length == 9 && decide (t.value = 1) &&
    ((t.children.getD []).map fun c => (c.children.getD []).length) == [0, 0, 0, 0, 8, 0, 0, 0, 0]) = true := by
  decide +kernel

end Tak.C08

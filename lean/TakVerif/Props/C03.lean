/-
  C03 — every legal move is generated and owns a move id; nothing else is playable.

  Model: `Gen.allMoves` (= `Position.all_moves`), `Gen.allMovesForSize` (the move-id table).
  Spec: `Rules.Legal` (Spec/Rules.lean, written from the rule book).
  All theorems hold for every board size and every position (well-formedness of the board is
  not even needed for the generator facts; the hypothesis is kept so that the statements read
  as in DESIGN.md).

  One precision about "move": `Rules.Legal` is indifferent to a drop tuple carried by a
  PLACEMENT (the code ignores it: DESIGN.md C01, "unspecified zone"), so
  `Move(x, y, PLACE_FLAT, (1,))` is "legal" whenever `Move(x, y, PLACE_FLAT)` is, yet as a
  value it is a different object and neither generator nor table lists it.  The statements
  therefore speak about *plain* moves (`Move.Plain`: a placement carries `slides = none`), and
  `C03_legal_norm` shows that nothing is lost: the plain form `m.norm` of a legal move is
  legal, and is the same move (same successor).
-/
import TakVerif.Model.Gen
import TakVerif.Model.Move
import TakVerif.Spec.Rules
import TakVerif.Spec.MoveWF
import TakVerif.Lemmas.Generator
import TakVerif.Props.C01

namespace Tak.C03
open Tak Gen

/-- a 5x5 middle-game position: White (ply 10) owns a stack of three at (1,1) with a capstone
    on top, a black wall stands at (3,1), a black capstone at (1,3) -/
def exPos : Pos :=
  { size := 5, wStones := 17, wCaps := 0, bStones := 17, bCaps := 0, ply := 10,
    board :=
      [[], [], [], [], [],
       [], [⟨.white, .cap⟩, ⟨.black, .flat⟩, ⟨.white, .flat⟩], [⟨.white, .flat⟩], [⟨.black, .standing⟩], [],
       [], [⟨.black, .flat⟩], [], [], [],
       [], [⟨.black, .cap⟩], [], [], [],
       [], [], [], [], [⟨.white, .flat⟩]] }

/-- the opening position of a 6x6 game with one capstone each -/
def exOpening : Pos := Pos.fromConfig (Config.standard 6)

example : exPos.WF ∧ exOpening.WF := by decide

/-- the plain form of a legal move is legal, is plain, and is the same move -/
theorem C03_legal_norm (p : Pos) (m : Move) (hl : Rules.Legal p m) :
    Rules.Legal p m.norm ∧ m.norm.Plain ∧ Rules.result p m.norm = Rules.result p m := by
  unfold Move.norm
  by_cases hs : m.type.isSlide = true
  · rw [if_pos hs]
    exact ⟨hl, (fun h => by rw [hs] at h; cases h), rfl⟩
  · rw [if_neg hs]
    refine ⟨?_, fun _ => rfl, ?_⟩
    · rcases hl with ⟨k, h⟩ | ⟨ds, h⟩
      · exact .inl ⟨k, ⟨h.kind, h.onBoard, h.opening, h.empty, h.reserve⟩⟩
      · exact absurd h.isSlide hs
    · obtain ⟨mx, my, t, sl⟩ := m
      cases t <;> first | rfl | (exact absurd rfl hs)

example : Rules.Legal exPos ⟨2, 2, .placeFlat, some [1]⟩ ∧
    (⟨2, 2, .placeFlat, some [1]⟩ : Move).norm = ⟨2, 2, .placeFlat, none⟩ := by decide +kernel

/-- every legal move is generated -/
theorem C03_generator_complete (p : Pos) (m : Move) (_hwf : p.WF) (hl : Rules.Legal p m)
    (hpl : m.Plain) : m ∈ Gen.allMoves p :=
  gen_complete hl hpl

/-- … in whatever shape the caller wrote it: its plain form is generated -/
theorem C03_generator_complete_norm (p : Pos) (m : Move) (_hwf : p.WF) (hl : Rules.Legal p m) :
    m.norm ∈ Gen.allMoves p :=
  let h := C03_legal_norm p m hl
  gen_complete h.1 h.2.1

-- the capstone runs over the single white flat and flattens the wall: legal, hence generated
example : Rules.Legal exPos ⟨1, 1, .right, some [2, 1]⟩ := by decide +kernel
example : (⟨1, 1, .right, some [2, 1]⟩ : Move) ∈ Gen.allMoves exPos :=
  C03_generator_complete _ _ (by decide) (by decide +kernel) (by decide)
-- opening: only flats are legal; the generator nevertheless lists walls and capstones (a
-- superset is permitted) and they are refused by the rules
example : Rules.Legal exOpening ⟨3, 3, .placeFlat, none⟩ ∧ ¬ Rules.Legal exOpening ⟨3, 3, .placeCap, none⟩ ∧
    (⟨3, 3, .placeCap, none⟩ : Move) ∈ Gen.allMoves exOpening := by decide +kernel

/-- no move is generated twice -/
theorem C03_generator_nodup (p : Pos) (_hwf : p.WF) : (Gen.allMoves p).Nodup := allMoves_nodup p

example : (Gen.allMoves exPos).length = 128 ∧ ((Gen.allMoves exPos).filter (Rules.legalb exPos)).length = 56 := by
  decide +kernel

/-- everything generated is an entry of the move table of the size (hence has a move id) -/
theorem C03_generator_in_table (p : Pos) (m : Move) (_hwf : p.WF) (h : m ∈ Gen.allMoves p) :
    m ∈ Gen.allMovesForSize p.size :=
  allMoves_sub_table p h

/-- every legal move is an entry of the move table of the size -/
theorem C03_legal_in_table (p : Pos) (m : Move) (hwf : p.WF) (hl : Rules.Legal p m) (hpl : m.Plain) :
    m ∈ Gen.allMovesForSize p.size :=
  C03_generator_in_table p m hwf (C03_generator_complete p m hwf hl hpl)

/-- … and so owns a move id that decodes back to it -/
theorem C03_legal_has_id (p : Pos) (m : Move) (hwf : p.WF) (hl : Rules.Legal p m) (hpl : m.Plain) :
    ∃ i, Gen.encodeMove p.size m = some i ∧ Gen.decodeMove p.size i = some m := by
  obtain ⟨i, hi⟩ := lastIdxOf_of_mem (C03_legal_in_table p m hwf hl hpl)
  exact ⟨i, hi, lastIdxOf_some hi⟩

/-- Trying every table entry reaches exactly the legal moves: the table entries that
    `Position.move` accepts are exactly the (plain) legal moves.  Stated over C01's main
    theorem as an explicit hypothesis (`Props/C01.lean` proves it for `Impl.move`). -/
theorem C03_table_accepts_iff_legal_of_C01
    (h01 : ∀ p m, p.WF → Impl.move p m =
      if Rules.Legal p m then .ok (Rules.result p m) else .error .illegal)
    (p : Pos) (m : Move) (hwf : p.WF) :
    (m ∈ Gen.allMovesForSize p.size ∧ (Impl.move p m).isOk = true) ↔ (Rules.Legal p m ∧ m.Plain) := by
  rw [h01 p m hwf]
  constructor
  · rintro ⟨ht, hok⟩
    by_cases hl : Rules.Legal p m
    · exact ⟨hl, tableEntry_plain ht⟩
    · rw [if_neg hl] at hok; cases hok
  · rintro ⟨hl, hpl⟩
    refine ⟨C03_legal_in_table p m hwf hl hpl, ?_⟩
    rw [if_pos hl]; rfl

-- the hypothesis `h01` at a concrete point (the capstone flattening the wall), and the two
-- sides of the equivalence there
example : (Impl.move exPos ⟨1, 1, .right, some [2, 1]⟩).toOption =
    some (Rules.result exPos ⟨1, 1, .right, some [2, 1]⟩) := by decide +kernel
example : (⟨1, 1, .right, some [2, 1]⟩ : Move) ∈ Gen.allMovesForSize exPos.size := by decide +kernel
-- a table entry that is not legal (the wall at (3,1) may not move: it is Black's)
example : (⟨3, 1, .left, some [1]⟩ : Move) ∈ Gen.allMovesForSize exPos.size ∧
    ¬ Rules.Legal exPos ⟨3, 1, .left, some [1]⟩ ∧
    (Impl.move exPos ⟨3, 1, .left, some [1]⟩).isOk = false := by decide +kernel

/-- **Closed form** (C01's refinement theorem discharged): trying every entry of the size's
    move-id table against the move model reaches exactly the (plain) legal moves. -/
theorem C03_table_accepts_iff_legal (p : Pos) (m : Move) (hwf : p.WF) :
    (m ∈ Gen.allMovesForSize p.size ∧ (Impl.move p m).isOk = true) ↔ (Rules.Legal p m ∧ m.Plain) :=
  C03_table_accepts_iff_legal_of_C01 (fun p m h => Tak.C01.C01_move_refines_rules p m h) p m hwf

end Tak.C03

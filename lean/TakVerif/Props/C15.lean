/-
  C15 — board symmetries commute with the rules.

  Property theorems only; the proofs are in Lemmas/Sym*.lean.  `T σ p` is
  `Sym.transformPos σ p` (the repaired `transform_position`, which keeps the reserves),
  `T σ m` is `Sym.transformMove σ m p.size` (`transform_move(sym, move, size)`), `σ` ranges
  over `Sym.SYMS`, the model of the list `SYMMETRIES` (built by the same products).
-/
import TakVerif.Lemmas.SymOutcome
import TakVerif.Lemmas.SymOutcomeSpec
import TakVerif.Props.C02
import TakVerif.Lemmas.SymVariants

namespace Tak
namespace C15
open Sym Sym.Mat3

/-- the eight isometries of the square `[0, n-1]²`, in the order of the property text -/
abbrev isometries (n x y : Int) : List (Int × Int) :=
  [(x, y), (n - 1 - x, y), (x, n - 1 - y), (n - 1 - x, n - 1 - y),
   (y, x), (n - 1 - y, x), (y, n - 1 - x), (n - 1 - y, n - 1 - x)]

/-- The eight matrices are pairwise distinct, contain the identity, are closed under
    product and inverse, fix the third coordinate, and — as maps `(x, y) ↦ σ·(x, y, n-1)`,
    for every `n` and ALL integer `x, y` — are exactly the eight isometries of the square
    (one fixed re-indexing `π` of the list above, the same for every `n, x, y`): the full
    dihedral group. -/
theorem C15_group :
    SYMS.length = 8 ∧ SYMS.Nodup ∧ ident ∈ SYMS ∧
    (∀ a ∈ SYMS, ∀ b ∈ SYMS, mul a b ∈ SYMS) ∧
    (∀ a ∈ SYMS, ∃ b ∈ SYMS, mul a b = ident ∧ mul b a = ident) ∧
    (∀ a ∈ SYMS, ∀ x y w : Int, a.az x y w = w) ∧
    (∃ π : List Nat, π.Perm (List.range 8) ∧
      ∀ n x y : Int,
        SYMS.map (fun s => (s.ax x y (n - 1), s.ay x y (n - 1))) =
          π.map (fun i => (isometries n x y).getD i (0, 0))) := by
  refine ⟨by decide, by decide, by decide, by decide, by decide, fun a ha x y w => az_eq ha x y w, ?_⟩
  refine ⟨[0, 1, 6, 4, 3, 2, 5, 7], by decide, ?_⟩
  intro n x y
  rw [SYMS_eq]
  simp only [List.map_cons, List.map_nil, ax, ay, List.getD_eq_getElem?_getD,
    List.getElem?_cons_zero, List.getElem?_cons_succ, Option.getD_some, List.cons.injEq,
    Prod.mk.injEq, and_true]
  omega

example : (SYMS.map fun s => (s.ax 1 0 (5 - 1), s.ay 1 0 (5 - 1))) =
    [(1, 0), (3, 0), (0, 3), (0, 1), (3, 4), (1, 4), (4, 1), (4, 3)] := by decide

/-- Each of the eight maps the `n × n` grid onto itself bijectively, for every `n`
    (and is injective on all of `ℤ²`; a square is on the board iff its image is); the list
    index `oi + oj*n` written by `transform_position` is the flat index of the image square,
    inside `[0, n²)`. -/
theorem C15_bijection {s : Mat3} (hs : s ∈ SYMS) (n : Nat) :
    (∀ x y : Int, InB n (sx s n x y) (sy s n x y) ↔ InB n x y) ∧
    (∀ x y x' y' : Int, sx s n x y = sx s n x' y' → sy s n x y = sy s n x' y' → x = x' ∧ y = y') ∧
    (∀ X Y : Int, InB n X Y → ∃ x y, InB n x y ∧ sx s n x y = X ∧ sy s n x y = Y) ∧
    (∀ x y : Int, InB n x y →
        (sx s n x y + sy s n x y * n).toNat = (sx s n x y).toNat + (sy s n x y).toNat * n ∧
        (sx s n x y + sy s n x y * n).toNat < n * n) := by
  refine ⟨InB_image hs n, fun _ _ _ _ h1 h2 => image_inj hs h1 h2, fun _ _ h => image_surj hs h, ?_⟩
  intro x y h
  have himg := (InB_image hs n x y).2 h
  refine ⟨key_eq himg, ?_⟩
  rw [key_eq himg]
  unfold InB at himg
  exact idx_lt (by omega) (by omega)

example : rot ∈ SYMS ∧ InB 5 (sx rot 5 1 0) (sy rot 5 1 0) ∧ (sx rot 5 1 0, sy rot 5 1 0) = (0, 3) := by decide

/-- **Transform-then-play = play-then-transform**, for each of the eight symmetries, every
    well-formed position and EVERY move (legal or not, on or off the board, any drop tuple):
    an accepted move gives the image of the successor, a refused move is refused with the
    same error (`Except.map` keeps errors). -/
theorem C15_commute {s : Mat3} (hs : s ∈ SYMS) {p : Pos} (hwf : p.WF) (m : Move) :
    Impl.move (transformPos s p) (transformMove s m p.size) = (Impl.move p m).map (transformPos s) :=
  move_comm hs hwf m

/-- `transform_move` never fails (`KeyError`) for one of the eight: the totalised
    `transformMove` used above is the real result. -/
theorem C15_move_total {s : Mat3} (hs : s ∈ SYMS) (m : Move) (n : Nat) :
    transformMove? s m n = some (transformMove s m n) := by
  have := transformMove?_isSome hs m n
  unfold transformMove
  cases h : transformMove? s m n with
  | none => rw [h] at this; cases this
  | some v => rfl

/-- a 3x3 position after two opening plies and a white stack of two on `(1,1)` -/
def exPos : Pos :=
  { size := 3, wStones := 8, wCaps := 0, bStones := 8, bCaps := 0, ply := 4,
    board := [[⟨.black, .flat⟩], [], [⟨.black, .standing⟩],
              [], [⟨.white, .flat⟩, ⟨.black, .flat⟩], [],
              [], [⟨.white, .flat⟩], []] }

/-- non-vacuity: a legal two-square slide, an illegal slide into the edge and an off-board
    placement, all under the (non-trivial) symmetry `rot·flip` -/
example : exPos.WF ∧ mul rot flip ∈ SYMS ∧ mul rot flip ≠ ident ∧
    (Impl.move exPos ⟨1, 1, .up, some [1]⟩).toOption.isSome = true ∧
    transformMove (mul rot flip) ⟨1, 1, .up, some [1]⟩ 3 = ⟨1, 1, .right, some [1]⟩ ∧
    transformPos (mul rot flip) exPos ≠ exPos := by
  decide

example : Impl.move exPos ⟨1, 1, .right, some [1, 1]⟩ = .error .illegal ∧
    Impl.move exPos ⟨-1, 5, .placeFlat, none⟩ = .error .illegal := ⟨rfl, rfl⟩

/-- Legality, side to move, ply, size, reserves and the outcome of the game are unchanged
    by each of the eight transformations.  (The outcome clause here is over `Sym.outcome`, the
    declarative adjudication of Lemmas/SymOutcome.lean, written before C02 existed; the
    clause over the real model `Impl.winner` / `Impl.hasRoad` is `C15_winner_invariant` /
    `C15_hasRoad_invariant` below.) -/
theorem C15_invariants {s : Mat3} (hs : s ∈ SYMS) {p : Pos} (hwf : p.WF) :
    (∀ m, Rules.Legal p m ↔ Rules.Legal (transformPos s p) (transformMove s m p.size)) ∧
    (transformPos s p).toMove = p.toMove ∧
    (transformPos s p).ply = p.ply ∧
    (transformPos s p).size = p.size ∧
    (transformPos s p).wStones = p.wStones ∧ (transformPos s p).wCaps = p.wCaps ∧
    (transformPos s p).bStones = p.bStones ∧ (transformPos s p).bCaps = p.bCaps ∧
    (∀ c, HasRoad (transformPos s p) c ↔ HasRoad p c) ∧
    (∀ c, flatCount (transformPos s p) c = flatCount p c) ∧
    (BoardFull (transformPos s p) ↔ BoardFull p) ∧
    outcome (transformPos s p) = outcome p ∧
    (transformPos s p).WF :=
  ⟨legal_T_iff hs hwf, rfl, rfl, rfl, rfl, rfl, rfl, rfl, hasRoad_T_iff hs hwf, flatCount_T hs hwf,
   boardFull_T hs hwf, outcome_T hs hwf, transformPos_wf hwf⟩

/-- non-vacuity: a legal move exists in `exPos`, and a position with a road -/
example : Rules.Legal exPos ⟨1, 1, .up, some [1]⟩ := by decide

def exRoad : Pos :=
  { exPos with board := [[⟨.white, .flat⟩], [⟨.white, .cap⟩], [⟨.white, .flat⟩], [], [], [], [], [], []] }

example : exRoad.WF ∧ HasRoad exRoad .white :=
  ⟨by decide, (0, 0), (2, 0),
   .step _ (1, 0) _ ⟨by decide, _, _, rfl, rfl, rfl⟩ (by unfold Adj; decide)
     (.step _ (2, 0) _ ⟨by decide, _, _, rfl, rfl, rfl⟩ (by unfold Adj; decide)
       (.single _ ⟨by decide, _, _, rfl, rfl, rfl⟩)),
   by unfold OppositeEdges; decide⟩

/-- **The outcome clause over the real adjudication model**: `Position.winner()` (the flood
    fill `Impl.winner` of Model/Winner.lean) gives the same answer on a well-formed position
    and on each of its eight images.  Proof: `C02_winner_spec` identifies `Impl.winner` with
    `Spec.outcome`, and `Spec.Road` / `Spec.outcome` are transported along the symmetry
    (Lemmas/SymOutcomeSpec.lean: chains map to chains, opposite edges to opposite edges). -/
theorem C15_winner_invariant {s : Mat3} (hs : s ∈ SYMS) {p : Pos} (hwf : p.WF) :
    Impl.winner (transformPos s p) = Impl.winner p := by
  rw [C02.C02_winner_spec _ (transformPos_wf hwf), C02.C02_winner_spec _ hwf, spec_outcome_T hs hwf]

/-- the same for the lone road query `Position.has_road()` -/
theorem C15_hasRoad_invariant {s : Mat3} (hs : s ∈ SYMS) {p : Pos} (hwf : p.WF) :
    Impl.hasRoad (transformPos s p) = Impl.hasRoad p := by
  rw [C02.C02_hasRoad_spec _ (transformPos_wf hwf), C02.C02_hasRoad_spec _ hwf, spec_roadAnswer_T hs hwf]

/-- roads of the C02 specification map to roads (both directions), for each colour -/
theorem C15_road_invariant {s : Mat3} (hs : s ∈ SYMS) {p : Pos} (hwf : p.WF) (c : Color) :
    Spec.Road (transformPos s p) c ↔ Spec.Road p c :=
  road_spec_T_iff hs hwf c

/-- non-vacuity: a won position whose image under a quarter turn is a different position
    with the same (non-trivial) verdict -/
example : exRoad.WF ∧ rot ∈ SYMS ∧ transformPos rot exRoad ≠ exRoad ∧
    Impl.winner exRoad = (some .white, some .road) ∧
    Impl.winner (transformPos rot exRoad) = (some .white, some .road) := by decide

/-- `symmetries(pos)` starts with the position itself (paired with the identity), lists no
    position twice, lists every one of the eight images, and lists nothing else. -/
theorem C15_variants {p : Pos} (hwf : p.WF) :
    (symmetries p).head? = some (ident, p) ∧
    ((symmetries p).map (·.2)).Nodup ∧
    (∀ s ∈ SYMS, transformPos s p ∈ (symmetries p).map (·.2)) ∧
    (∀ e ∈ symmetries p, e.1 ∈ SYMS ∧ e.2 = transformPos e.1 p) := by
  obtain ⟨h1, _, h3, h4⟩ := vfold_inv p SYMS [] (by simp)
  refine ⟨?_, h1, h3, ?_⟩
  · have hS : SYMS = ident :: SYMS.tail := by decide
    unfold symmetries
    rw [symmetriesOf_eq, hS, List.foldl_cons]
    rw [vstep_nil_ident hwf]
    obtain ⟨_, ⟨r, hr⟩, _, _⟩ := vfold_inv p SYMS.tail [(ident, p)] (by simp)
    rw [hr]; rfl
  · intro e he
    rcases h4 e he with h | h
    · cases h
    · exact h

/-- non-vacuity: an asymmetric position has eight distinct variants, the empty board one -/
example : exPos.WF ∧ (symmetries exPos).length = 8 ∧
    (symmetries (Pos.fromConfig (Config.standard 3))).length = 1 := by decide

end C15
end Tak

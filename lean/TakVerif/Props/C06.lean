/-
  C06 — position token encoding is lossless and mover-relative.

  Model: TakVerif/Model/Tokens.lean (`encodeE`/`encode`, repaired `decode`, `encodeBatch`).
  Spec:  TakVerif/Spec/Tokens.lean (`EncWF`, `swapColours`, `layout`, `batchSpec`).
  All theorems are for every board size ≥ 1 (the property asks for 3..6), every stack height,
  both sentinel settings, every batch (any number of rows, any lengths, any order).
  Property theorems only; helper lemmas are in TakVerif/Lemmas/Tokens.lean, TokensBatch.lean.
-/
import TakVerif.Lemmas.Tokens
import TakVerif.Lemmas.TokensBatch

namespace Tak.C06
open Tak.Tokens

/-- a 3x3 position with custom reserves, a buried-flats stack under a capstone, Black to move -/
def exPos : Pos :=
  { size := 3, wStones := 7, wCaps := 1, bStones := 8, bCaps := 0, ply := 5,
    board := [[⟨.black, .flat⟩, ⟨.white, .flat⟩], [], [⟨.white, .standing⟩], [],
              [⟨.black, .cap⟩, ⟨.white, .flat⟩, ⟨.black, .flat⟩], [], [], [], []] }

/-- a 4x4 start position with the standard reserves, White to move -/
def exPos4 : Pos := Pos.fromConfig (Config.standard 4)

example : EncWF exPos := by decide
example : EncWF exPos4 := by decide
example : encode exPos true = [255, 10, 211, 253, 210, 254, 1, 6, 0, 7, 0, 4, 6, 2, 0, 0, 0, 0] := by decide

/-- Inside the domain the code as written (Python subscripts into `Token.RESERVES` /
    `Token.CAPSTONES`) raises nothing and yields `encode p s`. -/
theorem C06_encode_total {p : Pos} (h : EncWF p) (s : Bool) : encodeE p s = .ok (encode p s) :=
  encodeE_eq_encode h.2.2 s

example : encodeE exPos false = .ok (encode exPos false) := C06_encode_total (by decide) false
/-- outside the vocabulary (8x8: 50 stones, 2 capstones) the subscript raises -/
example : encodeE (Pos.fromConfig (Config.standard 8)) true = .error (.crash "IndexError") := by rfl

/-- Lossless: decoding an encoding succeeds and returns the same board, side to move, size
    and reserves (both sentinel settings). -/
theorem C06_decode_encode {p : Pos} (h : EncWF p) (s : Bool) :
    ∃ q, decode (encode p s) = .ok q ∧ q.board = p.board ∧ q.toMove = p.toMove ∧
      q.size = p.size ∧ reserves q = reserves p := by
  refine ⟨_, decode_encode h s, rfl, ?_, rfl, rfl⟩
  cases hm : p.toMove <;> simp [Pos.toMove]

example : ∃ q, decode (encode exPos true) = .ok q ∧ q.board = exPos.board ∧ q.toMove = exPos.toMove ∧
    q.size = exPos.size ∧ reserves q = reserves exPos := C06_decode_encode (by decide) true

/-- Injective: positions of the domain with the same token sequence have the same size, board,
    side to move and reserves. -/
theorem C06_injective {p p' : Pos} (s : Bool) (h : EncWF p) (h' : EncWF p')
    (e : encode p s = encode p' s) :
    p.size = p'.size ∧ p.board = p'.board ∧ p.toMove = p'.toMove ∧ reserves p = reserves p' := by
  obtain ⟨q, hq, b, t, n, r⟩ := C06_decode_encode h s
  obtain ⟨q', hq', b', t', n', r'⟩ := C06_decode_encode h' s
  rw [e, hq'] at hq
  cases hq
  exact ⟨n.symm.trans n', b.symm.trans b', t.symm.trans t', r.symm.trans r'⟩

/-- … hence distinct (board, side to move, reserves) triples get distinct token sequences. -/
theorem C06_distinct {p p' : Pos} (s : Bool) (h : EncWF p) (h' : EncWF p')
    (d : p.board ≠ p'.board ∨ p.toMove ≠ p'.toMove ∨ reserves p ≠ reserves p') :
    encode p s ≠ encode p' s := by
  intro e
  obtain ⟨_, b, t, r⟩ := C06_injective s h h' e
  rcases d with d | d | d
  · exact d b
  · exact d t
  · exact d r

example : encode exPos true ≠ encode { exPos with bStones := 9 } true :=
  C06_distinct true (by decide) (by decide) (Or.inr (Or.inr (by decide)))

/-- Mover-relative: swapping every piece colour, the reserves and the side to move changes only
    the to-play token (index 1 with the sentinel, 0 without).  Holds for EVERY position. -/
theorem C06_mover_relative (p : Pos) (s : Bool) :
    encode (swapColours p) s =
      (encode p s).set (if s then 1 else 0) (if p.toMove = Color.white then 10 else 9) := by
  rw [encode_swap]
  cases p.toMove <;> rfl

/-- the same, index by index -/
theorem C06_mover_relative_pointwise (p : Pos) (s : Bool) :
    (encode (swapColours p) s).length = (encode p s).length ∧
    (∀ j, j ≠ (if s then 1 else 0) → (encode (swapColours p) s)[j]? = (encode p s)[j]?) ∧
    (encode p s)[if s then 1 else 0]? = some (if p.toMove = Color.white then 9 else 10) ∧
    (encode (swapColours p) s)[if s then 1 else 0]? = some (if p.toMove = Color.white then 10 else 9) := by
  have hi : (encode p s)[if s then 1 else 0]? = some (if p.toMove = Color.white then 9 else 10) := by
    rw [encode_eq]
    cases s <;> cases p.toMove <;> simp [toPlayTok, WHITE_TO_PLAY, BLACK_TO_PLAY]
  have hlt : (if s then 1 else 0) < (encode p s).length := by
    rcases Nat.lt_or_ge (if s then 1 else 0) (encode p s).length with h | h
    · exact h
    · rw [List.getElem?_eq_none h] at hi; cases hi
  rw [C06_mover_relative]
  refine ⟨by simp, ?_, hi, ?_⟩
  · intro j hj
    rw [List.getElem?_set]
    simp [Ne.symm hj]
  · rw [List.getElem?_set]
    simp [hlt]

/-- the twin stays inside the domain, so the statement is not about junk -/
example : EncWF (swapColours exPos) := encWF_swap (by decide)
example : encode (swapColours exPos) true =
    [255, 9, 211, 253, 210, 254, 1, 6, 0, 7, 0, 4, 6, 2, 0, 0, 0, 0] := by decide

/-- Every token fits in a byte. -/
theorem C06_byte {p : Pos} (h : EncWF p) (s : Bool) : ∀ t ∈ encode p s, t ≤ 255 := by
  obtain ⟨_, _, hv⟩ := h
  obtain ⟨⟨a1, a2⟩, ⟨a3, a4⟩⟩ := hv.mover p.toMove
  obtain ⟨⟨b1, b2⟩, ⟨b3, b4⟩⟩ := hv.mover p.toMove.flip
  have hsq : ∀ sq : Stack, ∀ t ∈ squareTokens p.toMove sq, t ≤ 255 := by
    intro sq t ht
    cases sq with
    | nil => simp [squareTokens, EMPTY] at ht; omega
    | cons top stack =>
      simp only [squareTokens, List.mem_cons, List.mem_map] at ht
      rcases ht with rfl | ⟨pc, _, rfl⟩
      · cases (top.color == p.toMove) <;> cases top.kind <;> decide
      · rcases flatTok_ne p.toMove pc with e | e <;> rw [e] <;> decide
  intro t ht
  rw [encode_eq] at ht
  simp only [List.mem_append, List.mem_cons, List.mem_flatMap] at ht
  rcases ht with ht | rfl | rfl | rfl | rfl | rfl | ⟨sq, _, ht⟩
  · cases s <;> simp [OUTPUT_SENTINEL] at ht; omega
  · cases p.toMove <;> decide
  · simp only [reservesTok, FIRST_RESERVES_VALUE, LAST_RESERVES_VALUE, FIRST_CAPSTONES_VALUE,
      LAST_CAPSTONE_VALUE, MAX_RESERVES, MAX_CAPSTONES]; omega
  · simp only [capstonesTok, FIRST_CAPSTONES_VALUE, LAST_CAPSTONE_VALUE, MAX_CAPSTONES]; omega
  · simp only [reservesTok, FIRST_RESERVES_VALUE, LAST_RESERVES_VALUE, FIRST_CAPSTONES_VALUE,
      LAST_CAPSTONE_VALUE, MAX_RESERVES, MAX_CAPSTONES]; omega
  · simp only [capstonesTok, FIRST_CAPSTONES_VALUE, LAST_CAPSTONE_VALUE, MAX_CAPSTONES]; omega
  · exact hsq sq t ht

example : ∀ t ∈ encode exPos true, t ≤ 255 := C06_byte (by decide) true

/-- Layout: sentinel 255 first iff `s`; the to-play token 9/10; the mover's stones and
    capstones, the opponent's stones and capstones (203 + stones, 253 + capstones); then the
    squares in flat index order, each `0` or the top token followed by 2 (mover's) / 6
    (opponent's) for the buried pieces, top to bottom (`Tokens.layout`, written with literal
    token values). -/
theorem C06_layout {p : Pos} (h : EncWF p) (s : Bool) : encode p s = layout p s := by
  obtain ⟨_, _, hv⟩ := h
  obtain ⟨⟨a1, a2⟩, ⟨a3, a4⟩⟩ := hv.mover p.toMove
  obtain ⟨⟨b1, b2⟩, ⟨b3, b4⟩⟩ := hv.mover p.toMove.flip
  rw [encode_eq, layout_def]
  have e1 : ∀ i : Int, 0 ≤ i → reservesTok i = (203 + i).toNat := by
    intro i hi
    simp only [reservesTok, FIRST_RESERVES_VALUE, LAST_RESERVES_VALUE, FIRST_CAPSTONES_VALUE,
      LAST_CAPSTONE_VALUE, MAX_RESERVES, MAX_CAPSTONES]; omega
  have e2 : ∀ i : Int, 0 ≤ i → capstonesTok i = (253 + i).toNat := by
    intro i hi
    simp only [capstonesTok, FIRST_CAPSTONES_VALUE, LAST_CAPSTONE_VALUE, MAX_CAPSTONES]; omega
  rw [e1 _ a1, e2 _ a3, e1 _ b1, e2 _ b3]
  have e3 : squareTokens p.toMove = squareLayout p.toMove := funext (squareTokens_eq_layout _)
  rw [e3]
  cases s <;> cases p.toMove <;> simp [toPlayTok, OUTPUT_SENTINEL, WHITE_TO_PLAY, BLACK_TO_PLAY]

example : layout exPos true = [255, 10, 211, 253, 210, 254, 1, 6, 0, 7, 0, 4, 6, 2, 0, 0, 0, 0] := by decide

/-- Batch: the growing-width loop returns every row padded with 0 to the maximum length, and the
    mask `len × true ++ pad × false` — for every list of rows (any lengths, any order). -/
theorem C06_batch (rows : List (List Nat)) :
    encodeBatch rows =
      (rows.map (fun r => r ++ List.replicate (maxLen rows - r.length) 0),
       rows.map (fun r => List.replicate r.length true ++ List.replicate (maxLen rows - r.length) false)) :=
  encodeBatch_eq_spec rows

/-- … hence the mask marks exactly the real tokens and the marked cells are the per-row
    encoding: row `i` of the batch restricted to its mask is `rows[i]`. -/
theorem C06_batch_exact (rows : List (List Nat)) (i : Nat) (hi : i < rows.length) :
    ∃ (ho : i < (encodeBatch rows).1.length) (hm : i < (encodeBatch rows).2.length),
      ((encodeBatch rows).1[i]).length = maxLen rows ∧
      ((encodeBatch rows).2[i]).length = maxLen rows ∧
      (∀ j, ((encodeBatch rows).2[i])[j]? = some true ↔ j < (rows[i]).length) ∧
      (∀ j, j < (rows[i]).length → ((encodeBatch rows).1[i])[j]? = (rows[i])[j]?) ∧
      (∀ j, (rows[i]).length ≤ j → j < maxLen rows → ((encodeBatch rows).1[i])[j]? = some 0) := by
  have hle : (rows[i]).length ≤ maxLen rows := le_maxLen (List.getElem_mem hi)
  rw [C06_batch]
  refine ⟨by simpa using hi, by simpa using hi, ?_⟩
  simp only [List.getElem_map, List.length_append, List.length_replicate]
  refine ⟨by omega, by omega, ?_, ?_, ?_⟩
  · intro j
    by_cases hj : j < (rows[i]).length
    · simp [List.getElem?_append_left, hj]
    · simp only [hj, iff_false]
      rw [List.getElem?_append_right (by simpa using hj)]
      intro h
      have := List.getElem?_eq_some_iff.mp h
      obtain ⟨_, h⟩ := this
      simp at h
  · intro j hj
    rw [List.getElem?_append_left hj]
  · intro j h1 h2
    rw [List.getElem?_append_right h1]
    rw [List.getElem?_replicate, if_pos (by omega)]

/-- `encode_batch(positions, s)` = `_encode_batch` over the per-position encodings: batch
    encoding equals per-position encoding, padded. -/
theorem C06_batch_positions (ps : List Pos) (s : Bool) :
    encodeBatch (ps.map (fun p => encode p s)) =
      batchSpec (ps.map (fun p => encode p s)) :=
  encodeBatch_eq_spec _

example : encodeBatch [[1, 2, 3], [4], [5, 6, 7, 8], []] =
    ([[1, 2, 3, 0], [4, 0, 0, 0], [5, 6, 7, 8], [0, 0, 0, 0]],
     [[true, true, true, false], [true, false, false, false], [true, true, true, true],
      [false, false, false, false]]) := by decide
/-- a later, longer row forces the widening branch; an earlier longer row does not -/
example : (encodeBatch [encode exPos4 true, encode exPos true, encode exPos4 false]).1.map List.length
    = [22, 22, 22] := by decide

end Tak.C06

/-
  C12 — training batches say what the transcripts say; de-duplication averages.

  Model: TakVerif/Model/Batch.lean (`Transcript.results`, `Transcript.logits`, `encodeGames`,
  `encodeBatch`, `dedupBatch`).  Vocabulary: TakVerif/Spec/Batch.lean.
  All theorems are for every token encoding `enc : Pos → List Nat` (the encoding itself is C06;
  `C12_encoding_is_C06` ties the instance used by the driver to the C06 model),
  every head width `W`, every list of transcripts / every batch.

  Outside the stated inputs (and outside these theorems): empty transcripts and empty transcript
  lists (`positions[0]`, `torch.cat([])` raise: `encodeGames = none`, see the examples at the end);
  candidate lists with a repeated move (the later probability overwrites the earlier one, see the
  last example).
-/
import TakVerif.Lemmas.BatchDedup
import TakVerif.Lemmas.BatchEncode
import TakVerif.Lemmas.BatchTokens

namespace Tak.C12
open Tak.Batch Tak.BatchSpec Tak.BatchLemmas

/-! ## `encode_games` -/

/-- Rows are in game order, then ply order: the row of ply `i` of transcript `t` comes after all
    rows of the earlier transcripts `pre` and after the `i` earlier plies of `t`.  That row holds
    the position's token encoding (zero-padded to the widest row of the batch), the mask of its
    real tokens, the dense policy row of that ply, its value and its outcome label; all five
    columns have one row per recorded position. -/
theorem C12_rows (enc : Pos → List Nat) (W : Nat) (pre : List Transcript) (t : Transcript)
    (post : List Transcript)
    (hok : ∀ u ∈ pre ++ t :: post, ∃ p0, TranscriptOK u W p0)
    (i : Nat) (p : Pos) (hp : t.positions[i]? = some p) :
    ∃ gb L, encodeGames enc W (pre ++ t :: post) = some gb ∧ t.logits W = some L ∧
      (let n := ((pre ++ t :: post).flatMap (·.positions)).length
       gb.positions.length = n ∧ gb.mask.length = n ∧ gb.moves.length = n ∧
       gb.values.length = n ∧ gb.results.length = n) ∧
      (let r := (pre.flatMap (·.positions)).length + i
       let w := maxLen (((pre ++ t :: post).flatMap (·.positions)).map enc)
       (enc p).length ≤ w ∧
       gb.positions[r]? = some (padTo w (enc p)) ∧
       gb.mask[r]? = some (maskTo w (enc p)) ∧
       gb.moves[r]? = L[i]? ∧
       gb.values[r]? = t.values[i]? ∧
       gb.results[r]? = some (label t.result p)) := by
  have hne : pre ++ t :: post ≠ [] := by simp
  have heq := encodeGames_eq enc W (pre ++ t :: post) hne hok
  obtain ⟨p0, ok⟩ := hok t (by simp)
  obtain ⟨L, hL, hLlen, _⟩ := logits_spec t W p0 ok
  have hi : i < t.positions.length := by
    rcases Nat.lt_or_ge i t.positions.length with h | h
    · exact h
    · rw [List.getElem?_eq_none h] at hp; cases hp
  -- lengths of the per-transcript columns
  have hlenL : ∀ u ∈ pre ++ t :: post, ((u.logits W).getD []).length = u.positions.length := by
    intro u hu
    obtain ⟨q0, oku⟩ := hok u hu
    obtain ⟨Lu, hLu, hlen, _⟩ := logits_spec u W q0 oku
    rw [hLu]; exact hlen
  have hlenV : ∀ u ∈ pre ++ t :: post, u.values.length = u.positions.length := by
    intro u hu
    obtain ⟨q0, oku⟩ := hok u hu
    exact oku.len_values
  have hpre : ∀ u ∈ pre, u ∈ pre ++ t :: post := fun u hu => by simp [hu]
  refine ⟨_, L, heq, hL, ?_, ?_⟩
  · simp only [encodeBatch_eq, List.length_map]
    refine ⟨trivial, trivial, ?_, ?_, ?_⟩
    · exact flatMap_length_congr _ _ _ hlenL
    · exact flatMap_length_congr _ _ _ hlenV
    · exact flatMap_length_congr _ _ _ (fun u _ => results_length u)
  · simp only [encodeBatch_eq]
    have hpos : ((pre ++ t :: post).flatMap (·.positions))[(pre.flatMap (·.positions)).length + i]?
        = some p := by
      rw [flatMap_getElem?_mid (·.positions) pre t post i hi]; exact hp
    refine ⟨?_, ?_, ?_, ?_, ?_, ?_⟩
    · apply le_maxLen
      apply List.mem_map.mpr
      exact ⟨p, List.mem_of_getElem? hpos, rfl⟩
    · show (List.map _ _)[_]? = _
      rw [List.getElem?_map, List.getElem?_map, hpos]; rfl
    · show (List.map _ _)[_]? = _
      rw [List.getElem?_map, List.getElem?_map, hpos]; rfl
    · have h1 : (pre.flatMap (·.positions)).length =
          (pre.flatMap (fun u => (u.logits W).getD [])).length :=
        (flatMap_length_congr _ _ _ (fun u hu => hlenL u (hpre u hu))).symm
      show ((pre ++ t :: post).flatMap (fun u => (u.logits W).getD []))[_]? = _
      rw [h1, flatMap_getElem?_mid (fun u => (u.logits W).getD []) pre t post i
        (by simp only [hL, Option.getD_some]; omega)]
      simp [hL]
    · have h1 : (pre.flatMap (·.positions)).length = (pre.flatMap (·.values)).length :=
        (flatMap_length_congr _ _ _ (fun u hu => hlenV u (hpre u hu))).symm
      show ((pre ++ t :: post).flatMap (·.values))[_]? = _
      rw [h1, flatMap_getElem?_mid (·.values) pre t post i (by rw [ok.len_values]; exact hi)]
    · have h1 : (pre.flatMap (·.positions)).length = (pre.flatMap (·.results)).length :=
        (flatMap_length_congr _ _ _ (fun u _ => results_length u)).symm
      show (((pre ++ t :: post).flatMap (·.results)).map fun (r : Int) => (r : Rat))[_]? = _
      rw [List.getElem?_map, h1,
        flatMap_getElem?_mid (·.results) pre t post i (by rw [results_length]; exact hi),
        results_getElem?, hp]
      simp only [Option.map_some, label]
      cases t.result with
      | none => rfl
      | some c => by_cases h : p.toMove = c <;> simp [h]

/-- The tokens under the mask of a row are exactly the position's encoding: padding never leaks
    into what the mask marks as real. -/
theorem C12_rows_masked (w : Nat) (e : List Nat) (tg : List Rat) :
    key ⟨padTo w e, maskTo w e, tg⟩ = e := by
  have := key_padRow e (List.replicate (w - e.length) 0) tg
  simpa [padRow, padTo, maskTo] using this

/-- The encoding that `encodeGames` is instantiated with in the driver, and the batch padding it
    uses, are the C06 model's: `Batch.encodeTokens = Tokens.encode · true` and
    `Batch.encodeBatch = Tokens.encodeBatch` — so `C12_rows` with `enc := encodeTokens` speaks about
    "each recorded position's token encoding and mask" in the sense of C06. -/
theorem C12_encoding_is_C06 :
    (∀ p : Pos, encodeTokens p = Tokens.encode p true) ∧
    (∀ rows : List (List Nat), Batch.encodeBatch rows = Tokens.encodeBatch rows) :=
  ⟨encodeTokens_eq_tokens, encodeBatch_eq_tokens⟩

/-- Dense policy target: for candidates without repetition that all own a move id inside the head,
    the row of ply `i` holds candidate `j`'s search probability in the column of its move id and
    zero in every column that is no candidate's id. -/
theorem C12_dense (t : Transcript) (W : Nat) (p0 : Pos) (ok : TranscriptOK t W p0)
    (i : Nat) (ms : List Move) (ps : List Rat)
    (hms : t.moves[i]? = some ms) (hps : t.probs[i]? = some ps) :
    ∃ L row, t.logits W = some L ∧ L[i]? = some row ∧ row.length = W ∧
      (∀ j (_ : j < ms.length) c, Gen.encodeMove p0.size ms[j] = some c → row[c]? = ps[j]?) ∧
      (∀ c, c < W → (∀ m ∈ ms, Gen.encodeMove p0.size m ≠ some c) → row[c]? = some 0) := by
  obtain ⟨L, hL, _, hrows⟩ := logits_spec t W p0 ok
  obtain ⟨row, hrow, hd⟩ := hrows i ms ps hms hps
  exact ⟨L, row, hL, hrow, hd⟩

/-- Outcome labels: +1 where the player to move is the recorded winner, −1 where not, 0 on every
    row when the game has no result. -/
theorem C12_labels (t : Transcript) :
    (t.results.map fun (r : Int) => (r : Rat)) = t.positions.map (label t.result) ∧
    (t.result = none → t.results = List.replicate t.positions.length 0) ∧
    (∀ c, t.result = some c →
      t.results = t.positions.map fun p => if p.toMove = c then (1 : Int) else -1) := by
  refine ⟨?_, ?_, ?_⟩
  · unfold Transcript.results label
    cases t.result with
    | none => simp [List.map_replicate, List.map_const']
    | some c =>
      simp only [List.map_map]
      apply List.map_congr_left
      intro p _
      by_cases h : p.toMove = c <;> simp [h]
  · intro h; simp [Transcript.results, h]
  · intro c h; simp [Transcript.results, h]

/-! ## `dedup_batch` -/

/-- Output keys are the distinct input keys in order of first occurrence: no key twice, exactly
    the input's keys, and ordered by where each key first appears in the input. -/
theorem C12_dedup_keys (b : List Row) (W : Nat) (hW : ∀ x ∈ b, x.tgt.length = W) :
    (dedupBatch b).map key = distinct (b.map key) ∧
    ((dedupBatch b).map key).Nodup ∧
    (∀ k, k ∈ (dedupBatch b).map key ↔ k ∈ b.map key) ∧
    ((dedupBatch b).map key).Pairwise (fun k₁ k₂ => (b.map key).idxOf k₁ < (b.map key).idxOf k₂) := by
  have h : (dedupBatch b).map key = distinct (b.map key) := by
    rw [dedupBatch_eq b W hW, List.map_map]
    have : ∀ k ∈ distinct (b.map key), (key ∘ specRow W b) k = id k := by
      intro k hk
      obtain ⟨f, _, _, _, hkey, _⟩ := specRow_facts W b k (mem_distinct.mp hk) hW
      exact hkey
    rw [List.map_congr_left this, List.map_id]
  refine ⟨h, ?_, ?_, ?_⟩
  · rw [h]; exact nodup_distinct (b.map key)
  · intro k; rw [h]; exact mem_distinct (l := b.map key)
  · rw [h]; exact pairwise_distinct (b.map key)

/-- Every target of an output row is the arithmetic mean, over the occurrences of that row's
    position in the input, of that target (there is at least one occurrence). -/
theorem C12_dedup_mean (b : List Row) (W : Nat) (hW : ∀ x ∈ b, x.tgt.length = W)
    (o : Row) (ho : o ∈ dedupBatch b) :
    occ b (key o) ≠ [] ∧ o.tgt.length = W ∧
    ∀ c, c < W → o.tgt[c]? = some (colMean ((occ b (key o)).map (·.tgt)) c) := by
  rw [dedupBatch_eq b W hW] at ho
  obtain ⟨k, hk, rfl⟩ := List.mem_map.mp ho
  have hk' := mem_distinct.mp hk
  obtain ⟨f, _, _, _, hkey, hlen, hmean⟩ := specRow_facts W b k hk' hW
  rw [hkey]
  refine ⟨occ_ne_nil hk', hlen, ?_⟩
  intro c hc
  have := hmean c hc
  rw [List.getD_eq_getElem?_getD, List.getElem?_eq_getElem (by omega)] at this
  rw [List.getElem?_eq_getElem (by omega)]
  simpa using this

/-- A batch without duplicate positions comes back unchanged. -/
theorem C12_dedup_id (b : List Row) (W : Nat) (hW : ∀ x ∈ b, x.tgt.length = W)
    (hnd : (b.map key).Nodup) : dedupBatch b = b := by
  rw [dedupBatch_eq b W hW, distinct_of_nodup hnd, List.map_map]
  have : ∀ r ∈ b, (specRow W b ∘ key) r = id r := by
    intro r hr
    exact specRow_of_nodup W hnd hr (hW r hr)
  rw [List.map_congr_left this, List.map_id]

/-- The key ignores padding: (1) a row's key is its real tokens whatever the content and the
    width of the padding, so (2) rows showing the same position under different padding share one
    output row, and (3) the tokens and the mask kept for it are those of its first occurrence. -/
theorem C12_dedup_mask :
    (∀ (t pad : List Nat) (tg : List Rat), key ⟨(padRow t pad).1, (padRow t pad).2, tg⟩ = t) ∧
    (∀ (b : List Row) (W : Nat), (∀ x ∈ b, x.tgt.length = W) →
      ∀ r ∈ b, ((dedupBatch b).map key).count (key r) = 1) ∧
    (∀ (b : List Row) (W : Nat), (∀ x ∈ b, x.tgt.length = W) →
      ∀ o ∈ dedupBatch b, ∃ f, (occ b (key o)).head? = some f ∧ o.toks = f.toks ∧ o.mask = f.mask) := by
  refine ⟨key_padRow, ?_, ?_⟩
  · intro b W hW r hr
    obtain ⟨_, hnd, hmem, _⟩ := C12_dedup_keys b W hW
    have h1 : ((dedupBatch b).map key).count (key r) ≤ 1 := List.nodup_iff_count.mp hnd _
    have h2 : 0 < ((dedupBatch b).map key).count (key r) :=
      List.count_pos_iff.mpr ((hmem _).mpr (List.mem_map.mpr ⟨r, hr, rfl⟩))
    omega
  · intro b W hW o ho
    rw [dedupBatch_eq b W hW] at ho
    obtain ⟨k, hk, rfl⟩ := List.mem_map.mp ho
    obtain ⟨f, hf, ht, hm, hkey, _⟩ := specRow_facts W b k (mem_distinct.mp hk) hW
    rw [hkey]
    exact ⟨f, hf, ht, hm⟩

/-- The predicates the driver evaluates on implementation output during the failing-input search
    hold of the model's output (for any tolerance `tol ≥ 0`). -/
theorem C12_dedup_checkers (b : List Row) (W : Nat) (hW : ∀ x ∈ b, x.tgt.length = W)
    (tol : Rat) (htol : 0 ≤ tol) :
    dedupKeysOK b (dedupBatch b) = true ∧ dedupMeanOK tol b (dedupBatch b) = true ∧
    dedupFirstOK b (dedupBatch b) = true ∧ dedupIdOK b (dedupBatch b) = true := by
  refine ⟨?_, ?_, ?_, ?_⟩
  · simp [dedupKeysOK, (C12_dedup_keys b W hW).1]
  · simp only [dedupMeanOK, List.all_eq_true]
    intro o ho
    obtain ⟨_, hlen, hmean⟩ := C12_dedup_mean b W hW o ho
    simp only [Bool.and_eq_true, List.all_eq_true, List.mem_range, beq_iff_eq, List.mem_map]
    constructor
    · rintro r ⟨x, hx, rfl⟩
      rw [hlen]; exact hW x (List.mem_filter.mp hx).1
    · intro c hc
      rw [hlen] at hc
      have := hmean c hc
      rw [List.getD_eq_getElem?_getD, this]
      exact closeTo_self _ _ htol
  · simp only [dedupFirstOK, List.all_eq_true]
    intro o ho
    obtain ⟨f, hf, ht, hm⟩ := C12_dedup_mask.2.2 b W hW o ho
    simp [hf, ht, hm]
  · simp only [dedupIdOK]
    split
    · rename_i h; simp [C12_dedup_id b W hW h]
    · rfl

/-! ## non-vacuity: the hypotheses are met by concrete, non-trivial values -/

section examples

/-- two plies on a 3x3 board: ply 0 with three candidates, ply 1 with two -/
def exT : Transcript :=
  { positions := [Pos.fromConfig (Config.standard 3),
                  { Pos.fromConfig (Config.standard 3) with ply := 1 }],
    moves := [[⟨0, 0, .placeFlat, none⟩, ⟨1, 1, .placeFlat, none⟩, ⟨2, 2, .placeFlat, none⟩],
              [⟨0, 1, .placeFlat, none⟩, ⟨1, 0, .right, some [1]⟩]],
    probs := [[(1 : Rat) / 2, (1 : Rat) / 4, (1 : Rat) / 4], [(3 : Rat) / 4, (1 : Rat) / 4]],
    values := [(1 : Rat) / 8, -(1 : Rat) / 2],
    result := some .black }

/-- a one-position game without a result -/
def exU : Transcript :=
  { positions := [Pos.fromConfig (Config.standard 3)],
    moves := [[⟨1, 1, .placeFlat, none⟩]], probs := [[1]], values := [0], result := none }

/-- the candidate ids of `exT`, ply 1 (inside a head of width 135) -/
example : Gen.encodeMove 3 ⟨0, 1, .placeFlat, none⟩ = some 15 ∧
    Gen.encodeMove 3 ⟨1, 0, .right, some [1]⟩ = some 49 := by decide +kernel

/-- `C12_rows`, `C12_dense`: the model really produces rows on these transcripts — game order
    then ply order, labels for the black winner −1 (white to move), +1 (black to move), then 0 -/
example :
    (match encodeGames encodeTokens 135 [exT, exU] with
     | none => false
     | some gb =>
       gb.positions.length == 3 && gb.values == [(1 : Rat) / 8, -(1 : Rat) / 2, 0] &&
       gb.results == [-1, 1, 0] &&
       gb.moves.map (fun r => [r.getD 15 0, r.getD 49 0, r.getD 60 0]) ==
         [[0, 0, (1 : Rat) / 4], [(3 : Rat) / 4, (1 : Rat) / 4, 0], [0, 0, 1]]) = true := by
  decide +kernel

/-- outside the stated inputs: no transcripts, or a transcript without positions -/
example : encodeGames encodeTokens 135 [] = none ∧
    (encodeGames encodeTokens 135 [⟨[], [], [], [], none⟩]).isNone = true := by decide +kernel

/-- outside the stated inputs: a repeated candidate — the later probability wins -/
example : ((⟨[Pos.fromConfig (Config.standard 3)],
      [[⟨0, 0, .placeFlat, none⟩, ⟨0, 0, .placeFlat, none⟩]], [[(1 : Rat) / 4, (3 : Rat) / 4]], [0], none⟩ :
      Transcript).logits 135).map (fun L => L.map (·.getD 0 0)) = some [(3 : Rat) / 4] := by
  decide +kernel

/-- a batch of width-4 rows: position `[7,8]` three times under different padding content,
    position `[7,8,9]` once; targets of width 2 -/
def exB : List Row :=
  [⟨[7, 8, 0, 0], [true, true, false, false], [1, (1 : Rat) / 2]⟩,
   ⟨[7, 8, 9, 0], [true, true, true, false], [0, 4]⟩,
   ⟨[7, 8, 5, 5], [true, true, false, false], [3, (1 : Rat) / 4]⟩,
   ⟨[7, 8, 9, 1], [true, true, false, false], [-1, 0]⟩]

example : ∀ x ∈ exB, x.tgt.length = 2 := by decide +kernel

/-- `C12_dedup_*`: first-occurrence order, means 3/3 and (1/2+1/4+0)/3, first row's padding kept -/
example : dedupBatch exB =
    [⟨[7, 8, 0, 0], [true, true, false, false], [1, (1 : Rat) / 4]⟩,
     ⟨[7, 8, 9, 0], [true, true, true, false], [0, 4]⟩] := by decide +kernel

/-- `C12_dedup_id`: a batch without duplicate keys -/
example : ((exB.take 2).map key).Nodup ∧ dedupBatch (exB.take 2) = exB.take 2 := by decide +kernel

end examples

end Tak.C12

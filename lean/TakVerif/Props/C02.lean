/-
  C02 — game-over adjudication is right for every position.

  Model: `Impl.walk / hasRoad / flatCounts / flatsWinner / winner` (Model/Winner.lean),
  mirroring `Position._walk / has_road / flat_counts / flats_winner / winner`.
  Spec:  `Spec.Road`, `Spec.outcome`, `Spec.roadAnswer` (Spec/Road.lean), written from the
  property sentence.

  Every theorem is for every position `p` with `p.WF` (size ≥ 1, board of size² squares):
  every board size, every board (reachable or not), every ply (also negative), every
  reserve state.  `p.WF` is not used by the proofs — model and specification both read a
  square through the totalised `Pos.sq` — it is the hypothesis under which the default
  `[]` of that accessor is unreachable (the Python raises `IndexError` on a short board),
  so it is kept in the statements.
-/
import TakVerif.Lemmas.WalkPath
import TakVerif.Lemmas.WalkCongr
import TakVerif.Lemmas.WalkClosure

namespace Tak.C02
open Impl Spec Walk

/-! ### concrete positions for the non-vacuity examples -/

def wF : Stack := [⟨.white, .flat⟩]
def wS : Stack := [⟨.white, .standing⟩]
def wC : Stack := [⟨.white, .cap⟩]
def bF : Stack := [⟨.black, .flat⟩]
def bS : Stack := [⟨.black, .standing⟩]
def bC : Stack := [⟨.black, .cap⟩]
/-- a white flat buried under a black flat -/
def bOnW : Stack := [⟨.black, .flat⟩, ⟨.white, .flat⟩]

def mk (n : Nat) (ply : Int) (b : List Stack) : Pos := ⟨n, 5, 1, 5, 1, ply, b⟩

/-- 3x3, White owns row 0 (flat, capstone, flat) -/
def exRow : Pos := mk 3 4 [wF, wC, wF,  [], bF, [],  [], [], []]
/-- the same with a white WALL in the middle: no road -/
def exWall : Pos := mk 3 4 [wF, wS, wF,  [], bF, [],  [], [], []]
/-- the same with the middle white flat buried under a black flat: no road -/
def exBuried : Pos := mk 3 4 [wF, bOnW, wF,  [], [], [],  [], [], []]
/-- White owns row 0, Black owns row 1 -/
def exBoth (ply : Int) : Pos := mk 3 ply [wF, wF, wF,  bF, bC, bF,  [], [], []]
/-- only a diagonal of white flats: no road -/
def exDiag : Pos := mk 3 4 [wF, [], [],  [], wF, [],  [], [], wF]
/-- 4x4, a black snake from column 0 to column 3 that has to step DOWN (towards row 0):
      row3  .  .  .  .
      row2  d  d  d  a
      row1  d  wS d  d      (wS = white wall)
      row0  d  .  .  .      chain: `exSnakePath` -/
def exSnake : Pos := mk 4 7
  [bF, [], [], [],
   bF, wS, bF, bF,
   bF, bF, bF, wF,
   [], [], [], []]
/-- 4x4: Black's chain goes up column 0, right along row 2, DOWN to row 1, right, and the
    far edge for a left-right road is column 3 -/
def exSnakePath : List (Nat × Nat) := [(0, 0), (0, 1), (0, 2), (1, 2), (2, 2), (2, 1), (3, 1)]
/-- a full 3x3 board without a road, White has more flats -/
def exFullW : Pos := mk 3 9 [wF, bF, wF,  bS, wF, bF,  wF, bS, bF]
/-- a full 3x3 board without a road, equal flat counts: draw -/
def exFullDraw : Pos := mk 3 9 [wF, bF, wS,  bS, wF, bF,  bS, wS, wC]
/-- not full, but Black has nothing in reserve; Black has more flats -/
def exReserve : Pos := ⟨3, 4, 0, 0, 0, 6, [bF, bF, [],  [], wF, [],  [], [], []]⟩
/-- stones = 0 but a capstone left: not over -/
def exCapLeft : Pos := ⟨3, 4, 0, 0, 1, 6, [bF, bF, [],  [], wF, [],  [], [], []]⟩

/-! ### the flood fill -/

/-- `_walk` with the fuel the model supplies answers true exactly when a chain of road
    squares of colour `c` joins the seed edge to the far edge (soundness and completeness),
    for both directions; and the fuel is sufficient: any larger fuel gives the same answer. -/
theorem C02_walk_iff_path (p : Pos) (_hwf : p.WF) (c : Color) :
    (walkFrom p (leftSeeds p) c true = true ↔
        ∃ path a b, Chain p c path a b ∧ a.1 = 0 ∧ b.1 + 1 = p.size) ∧
    (walkFrom p (topSeeds p) c false = true ↔
        ∃ path a b, Chain p c path a b ∧ a.2 = 0 ∧ b.2 + 1 = p.size) ∧
    (∀ fuel, walkFuel p (leftSeeds p) ≤ fuel →
        walk p c true fuel [] (leftSeeds p).reverse = walkFrom p (leftSeeds p) c true) ∧
    (∀ fuel, walkFuel p (topSeeds p) ≤ fuel →
        walk p c false fuel [] (topSeeds p).reverse = walkFrom p (topSeeds p) c false) :=
  ⟨walk_left_iff p c, walk_top_iff p c,
   fun fuel hf => walk_fuel_irrelevant p c true _ fuel hf,
   fun fuel hf => walk_fuel_irrelevant p c false _ fuel hf⟩

/-- the same for an arbitrary seed list, in terms of the cells the loop handles -/
theorem C02_walk_iff_reach (p : Pos) (_hwf : p.WF) (c : Color) (horiz : Bool) (seeds : List Cell) :
    walkFrom p seeds c horiz = true ↔ ∃ j, Reach p c seeds j ∧ goal p horiz j = true :=
  walkFrom_iff p c horiz seeds

example : exSnake.WF := by decide
example : walkFrom exSnake (leftSeeds exSnake) .black true = true := by decide
example : Chain exSnake .black exSnakePath (0, 0) (3, 1) := by decide
example : walkFrom exSnake (topSeeds exSnake) .black false = false := by decide
example : walkFrom exWall (leftSeeds exWall) .white true = false := by decide

/-! ### the road query -/

/-- `has_road()` answers the road question of the property: both colours → the player who
    just moved; else the colour that has a road; else nobody. -/
theorem C02_hasRoad_spec (p : Pos) (_hwf : p.WF) : Impl.hasRoad p = Spec.roadAnswer p := by
  have hw := walks_iff_road p .white
  have hb := walks_iff_road p .black
  unfold Impl.hasRoad Spec.roadAnswer
  simp only [toMove_flip_eq]
  by_cases h1 : Road p .white <;> by_cases h2 : Road p .black
  · have e1 := hw.2 h1
    have e2 := hb.2 h2
    simp [e1, e2, h1, h2]
  · have e1 := hw.2 h1
    have e2 : (walkFrom p (leftSeeds p) .black true || walkFrom p (topSeeds p) .black false) = false := by
      rw [Bool.eq_false_iff]; exact fun e => h2 (hb.1 e)
    simp [e1, e2, h1, h2]
  · have e1 : (walkFrom p (leftSeeds p) .white true || walkFrom p (topSeeds p) .white false) = false := by
      rw [Bool.eq_false_iff]; exact fun e => h1 (hw.1 e)
    have e2 := hb.2 h2
    simp [e1, e2, h1, h2]
  · have e1 : (walkFrom p (leftSeeds p) .white true || walkFrom p (topSeeds p) .white false) = false := by
      rw [Bool.eq_false_iff]; exact fun e => h1 (hw.1 e)
    have e2 : (walkFrom p (leftSeeds p) .black true || walkFrom p (topSeeds p) .black false) = false := by
      rw [Bool.eq_false_iff]; exact fun e => h2 (hb.1 e)
    simp [e1, e2, h1, h2]

example : Road exRow .white := ⟨[(0, 0), (1, 0), (2, 0)], (0, 0), (2, 0), by decide, by decide⟩
example : ¬ Road exRow .black := by decide
example : ¬ Road exWall .white := by decide
example : ¬ Road exBuried .white := by decide
example : ¬ Road exDiag .white := by decide
example : Road exSnake .black := by decide
example : Impl.hasRoad exRow = some .white := by decide
example : Impl.hasRoad (exBoth 6) = some .black := by decide   -- White to move: Black just moved
example : Impl.hasRoad (exBoth 7) = some .white := by decide
example : Impl.hasRoad exDiag = none := by decide

/-! ### the outcome -/

/-- `winner()` is the outcome the property prescribes, for every well-formed position. -/
theorem C02_winner_spec (p : Pos) (hwf : p.WF) : Impl.winner p = Spec.outcome p := by
  unfold Impl.winner Spec.outcome
  rw [C02_hasRoad_spec p hwf]
  unfold Spec.roadAnswer
  by_cases h1 : Road p .white <;> by_cases h2 : Road p .black <;> simp only [h1, h2, and_self,
    and_false, false_and, if_true, if_false]
  rw [flatsWinner_eq]
  by_cases hf : BoardFull p
  · have := (boardFull_iff p).2 hf
    simp [this, hf]
  · have e1 : boardFull p = false := by
      rw [Bool.eq_false_iff]; exact fun e => hf ((boardFull_iff p).1 e)
    by_cases hr : ReserveEmpty p .white ∨ ReserveEmpty p .black
    · have := (someReserveEmpty_iff p).2 hr
      simp [this, hr]
    · have e2 : someReserveEmpty p = false := by
        rw [Bool.eq_false_iff]; exact fun e => hr ((someReserveEmpty_iff p).1 e)
      have hr' : ¬ (BoardFull p ∨ ReserveEmpty p .white ∨ ReserveEmpty p .black) := by
        rintro (h | h)
        · exact hf h
        · exact hr h
      simp [e1, e2, hr']

example : Impl.winner exRow = (some .white, some .road) := by decide
example : Spec.outcome exRow = (some .white, some .road) :=
  (C02_winner_spec exRow (by decide)) ▸ (by decide)
example : Impl.winner exWall = (none, none) := by decide
example : Impl.winner exBuried = (none, none) := by decide
example : Impl.winner (exBoth 6) = (some .black, some .road) := by decide
example : Impl.winner (exBoth 7) = (some .white, some .road) := by decide
example : Impl.winner exFullW = (some .white, some .flats) := by decide
example : Impl.winner exFullDraw = (none, some .flats) := by decide
example : Impl.winner exReserve = (some .black, some .flats) := by decide
example : Impl.winner exCapLeft = (none, none) := by decide
example : Impl.winner exSnake = (some .black, some .road) := by decide

/-- the lone road query and the road part of `winner()` agree (on the model, and the same
    relation holds between the two specification functions) -/
theorem C02_query_agrees (p : Pos) (_hwf : p.WF) :
    Impl.hasRoad p = (if (Impl.winner p).2 = some .road then (Impl.winner p).1 else none) ∧
    Spec.roadAnswer p = (if (Spec.outcome p).2 = some .road then (Spec.outcome p).1 else none) := by
  have key : Impl.hasRoad p =
      (if (Impl.winner p).2 = some .road then (Impl.winner p).1 else none) := by
    unfold Impl.winner
    cases hasRoad p with
    | some col => simp
    | none =>
      simp only
      split <;> simp
  refine ⟨key, ?_⟩
  rw [← C02_hasRoad_spec p _hwf, ← C02_winner_spec p _hwf]
  exact key

example : (Impl.winner exFullW).2 = some .flats ∧ Impl.hasRoad exFullW = none := by decide

/-! ### only tops matter; walls and buried pieces never count -/

/-- The outcome is a function of: the size, the view of every square (is it empty; whose
    flat-or-capstone is on top, if any; whose flat is on top, if any), the parity of the
    ply and whether each reserve is empty.  In particular a wall on top counts for nobody's
    road and nobody's flats whatever its colour, and nothing below the top is looked at. -/
theorem C02_walls_buried_ignored (p q : Pos) (_hwf : p.WF)
    (hsize : p.size = q.size) (hview : views p = views q)
    (hply : p.ply % 2 = q.ply % 2)
    (hres : ∀ c, ReserveEmpty p c ↔ ReserveEmpty q c) :
    Spec.outcome p = Spec.outcome q ∧ Spec.roadAnswer p = Spec.roadAnswer q := by
  have hw := road_congr hsize hview .white
  have hb := road_congr hsize hview .black
  have hj : justMoved p = justMoved q := by unfold justMoved; rw [hply]
  have hf := flatResult_congr hview
  have hfull := boardFull_congr hview
  unfold Spec.outcome Spec.roadAnswer
  simp only [hw, hb, hj, hf, hfull, hres]
  constructor <;> (by_cases h1 : Road q .white <;> by_cases h2 : Road q .black <;> simp [h1, h2])

/-- Two positions with the same size, the same TOP piece on every square, the same ply
    parity and the same reserve-emptiness have the same outcome, for the specification and
    for `winner()` / `has_road()`. -/
theorem C02_tops_only_matter (p q : Pos) (hwf : p.WF)
    (hsize : p.size = q.size)
    (htops : p.board.map List.head? = q.board.map List.head?)
    (hply : p.ply % 2 = q.ply % 2)
    (hres : ∀ c, (p.stones c + p.caps c = 0 ↔ q.stones c + q.caps c = 0)) :
    Spec.outcome p = Spec.outcome q ∧ Impl.winner p = Impl.winner q ∧
      Impl.hasRoad p = Impl.hasRoad q := by
  have hq : q.WF := by
    have := congrArg List.length htops
    simp only [List.length_map] at this
    exact ⟨hsize ▸ hwf.1, by rw [← this, hwf.2, hsize]⟩
  have h := C02_walls_buried_ignored p q hwf hsize (views_of_tops htops) hply hres
  refine ⟨h.1, ?_, ?_⟩
  · rw [C02_winner_spec p hwf, C02_winner_spec q hq, h.1]
  · rw [C02_hasRoad_spec p hwf, C02_hasRoad_spec q hq, h.2]

/-- `exRow` with junk buried under every top and other reserves / ply of the same parity -/
def exRowJunk : Pos := ⟨3, 9, 0, 2, 7, 10,
  [[⟨.white, .flat⟩, ⟨.black, .flat⟩], [⟨.white, .cap⟩, ⟨.black, .flat⟩, ⟨.white, .flat⟩], wF,
   [], [⟨.black, .flat⟩, ⟨.white, .flat⟩, ⟨.white, .flat⟩], [],  [], [], []]⟩

example : Impl.winner exRow = Impl.winner exRowJunk :=
  (C02_tops_only_matter exRow exRowJunk (by decide) rfl (by decide) (by decide)
    (by intro c; cases c <;> decide)).2.1

/-- `exWall` with the white wall replaced by a BLACK wall standing on a white flat, a second
    black flat buried under the black one, and another ply of the same parity -/
def exWall' : Pos := mk 3 6
  [wF, [⟨.black, .standing⟩, ⟨.white, .flat⟩], wF,  [], [⟨.black, .flat⟩, ⟨.black, .flat⟩], [],  [], [], []]

/-- a white wall and a black wall on the same square are interchangeable -/
example : views exWall = views exWall' := by decide
example : Spec.outcome exWall = Spec.outcome exWall' :=
  (C02_walls_buried_ignored exWall exWall' (by decide) rfl (by decide) (by decide)
    (by intro c; cases c <;> decide)).1

/-! ### the executable formulation of the specification -/

/-- the round-by-round closure (no stack, no `seen`) answers the road question of the
    specification, and with it `outcomeB` / `roadAnswerB` compute `outcome` / `roadAnswer` -/
theorem C02_closure_iff_road (p : Pos) (_hwf : p.WF) :
    (∀ c, Spec.roadB p c = true ↔ Road p c) ∧
    Spec.outcomeB p = Spec.outcome p ∧ Spec.roadAnswerB p = Spec.roadAnswer p := by
  have hw := roadB_iff_road p .white
  have hb := roadB_iff_road p .black
  refine ⟨fun c => roadB_iff_road p c, ?_, ?_⟩
  · unfold Spec.outcomeB Spec.outcome
    simp only [Bool.and_eq_true, hw, hb]
    by_cases h1 : Road p .white <;> by_cases h2 : Road p .black <;> simp [h1, h2]
  · unfold Spec.roadAnswerB Spec.roadAnswer
    simp only [Bool.and_eq_true, hw, hb]
    by_cases h1 : Road p .white <;> by_cases h2 : Road p .black <;> simp [h1, h2]

example : Spec.outcomeB exSnake = (some .black, some .road) := by decide
example : Spec.outcomeB exFullDraw = (none, some .flats) := by decide

end Tak.C02

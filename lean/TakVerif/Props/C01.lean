import TakVerif.Model.Move
import TakVerif.Spec.Rules
namespace Tak.C01
theorem placeholder : True := trivial
end Tak.C01

/-
  C01 — applying a move follows the rules exactly, or is refused.

  `Impl.move` (model of `Position.move`, `_move_place`, `_move_slide`) refines the
  declarative rules of `Spec/Rules.lean`: for every well-formed position (any size ≥ 1,
  any board, reserves, ply) and EVERY move (x, y : Int, any type, slides : Option (List Int))
  the move is accepted iff it is legal, the successor is exactly `Rules.result`, and the
  only error is `illegal` (`Err.crash` is unreachable).

  Helper lemmas (loop invariant of `slideLoop`, geometry of the path) are in
  `Lemmas/MoveRefine.lean`.  Each theorem is followed by an `example` that instantiates
  its hypotheses on a concrete non-trivial position.
-/
import TakVerif.Model.Move
import TakVerif.Spec.Rules
import TakVerif.Lemmas.Board
import TakVerif.Lemmas.MoveRefine

namespace Tak.C01

open Tak Tak.Pos Tak.Rules Tak.Impl Tak.MoveRefine

/-! ### concrete positions used by the non-vacuity examples -/

private def W (k : Kind) : Piece := ⟨.white, k⟩
private def B (k : Kind) : Piece := ⟨.black, k⟩

/-- 5x5, white to move (ply 10).
    (1,1): white capstone on a black flat on a white flat;   (2,1): a black flat;
    (3,1): a black wall;   (1,2): a white wall;   (0,3): a stack of six, white on top. -/
def ex5 : Pos :=
  { size := 5, wStones := 14, wCaps := 0, bStones := 15, bCaps := 1, ply := 10,
    board :=
      ((((List.replicate 25 ([] : Stack)).set 6 [W .cap, B .flat, W .flat]).set 7 [B .flat]).set 8
        [B .standing]).set 11 [W .standing] |>.set 15
        [W .flat, B .flat, W .flat, B .flat, W .flat, B .flat] }

/-- capstone stack moves right, dropping two flats and then flattening the wall alone -/
def mvFlatten : Move := ⟨1, 1, .right, some [2, 1]⟩
/-- carry of exactly `size` = 5 pieces along the whole row -/
def mvCarry5 : Move := ⟨0, 3, .right, some [2, 1, 1, 1]⟩
/-- carry of 6 > size -/
def mvCarry6 : Move := ⟨0, 3, .right, some [3, 1, 1, 1]⟩
/-- the wall on (1,2) is met while two pieces are still carried -/
def mvMidWall : Move := ⟨1, 1, .up, some [1, 1]⟩
/-- off the board -/
def mvOff : Move := ⟨5, 1, .placeFlat, none⟩

example : ex5.WF := by decide

/-! ### 1. the main theorem -/

/-- `Impl.move` accepts exactly the legal moves, produces exactly the successor the rules
    prescribe, and refuses everything else with the domain's own error. -/
theorem C01_move_refines_rules (p : Pos) (m : Move) (hwf : p.WF) :
    Impl.move p m = if Rules.Legal p m then .ok (Rules.result p m) else .error .illegal := by
  unfold Impl.move
  by_cases hb : p.inBounds m.x m.y = true
  · simp only [hb, Bool.not_true, Bool.false_eq_true, ↓reduceIte]
    by_cases hs : m.type.isSlide = true
    · simp only [hs, ↓reduceIte]
      have hiff : Legal p m ↔ ∃ ds, SlideOK p m ds := by
        constructor
        · rintro (⟨k, hk⟩ | h)
          · have := hk.kind
            rw [placeKind_none_of_slide hs] at this
            cases this
          · exact h
        · exact Or.inr
      have hr := moveSlide_refines hwf hb hs
      by_cases hl : Legal p m
      · rw [if_pos hl]; exact hr.1 (hiff.1 hl)
      · rw [if_neg hl]; exact hr.2 (fun h => hl (hiff.2 h))
    · have hs' : m.type.isSlide = false := by simpa using hs
      simp only [hs', Bool.false_eq_true, ↓reduceIte]
      have hiff : Legal p m ↔ ∃ k, PlaceOK p m k := by
        constructor
        · rintro (h | ⟨ds, hd⟩)
          · exact h
          · exact absurd hd.isSlide hs
        · exact Or.inl
      have hr := movePlace_refines hwf hb hs'
      by_cases hl : Legal p m
      · rw [if_pos hl]; exact hr.1 (hiff.1 hl)
      · rw [if_neg hl]; exact hr.2 (fun h => hl (hiff.2 h))
  · have hb' : p.inBounds m.x m.y = false := by simpa using hb
    simp only [hb', Bool.not_false, ↓reduceIte]
    have hl : ¬ Legal p m := by
      rintro (⟨k, hk⟩ | ⟨ds, hd⟩)
      · exact hb hk.onBoard
      · exact hb hd.onBoard
    rw [if_neg hl]

/-- non-vacuity: the capstone flattening is legal and the theorem gives its successor;
    the wall square ends up as the white capstone on a black FLAT -/
example : Impl.move ex5 mvFlatten = .ok (Rules.result ex5 mvFlatten) := by
  rw [C01_move_refines_rules ex5 mvFlatten (by decide), if_pos (by decide)]
example : Rules.Legal ex5 mvFlatten := by decide
example : (Rules.result ex5 mvFlatten).sq 3 1 = [W .cap, B .flat] := by decide
example : (Rules.result ex5 mvFlatten).sq 2 1 = [B .flat, W .flat, B .flat] := by decide
example : (Rules.result ex5 mvFlatten).sq 1 1 = [] := by decide
example : (Rules.result ex5 mvFlatten).sq 1 2 = [W .standing] := by decide
example : (Rules.result ex5 mvFlatten).ply = 11 := by decide

/-- non-vacuity: a carry of exactly `size` pieces is legal, one more is refused -/
example : Rules.Legal ex5 mvCarry5 := by decide
example : (Rules.result ex5 mvCarry5).sq 0 3 = [B .flat] := by decide
example : (Rules.result ex5 mvCarry5).sq 1 3 = [B .flat, W .flat] := by decide
example : (Rules.result ex5 mvCarry5).sq 4 3 = [W .flat] := by decide
example : Impl.move ex5 mvCarry6 = .error .illegal := by
  rw [C01_move_refines_rules ex5 mvCarry6 (by decide), if_neg (by decide)]

/-- non-vacuity: a wall in the middle of the path refuses the slide -/
example : ¬ Rules.Legal ex5 mvMidWall := by decide
example : Impl.move ex5 mvMidWall = .error .illegal := by
  rw [C01_move_refines_rules ex5 mvMidWall (by decide), if_neg (by decide)]
/-- … while the capstone alone may flatten that wall -/
example : Rules.Legal ex5 ⟨1, 1, .up, some [1]⟩ := by decide

/-- non-vacuity: an off-board square is refused (no wrap-around, no crash) -/
example : ¬ Rules.Legal ex5 mvOff := by decide
example : Impl.move ex5 mvOff = .error .illegal := by
  rw [C01_move_refines_rules ex5 mvOff (by decide), if_neg (by decide)]
example : Impl.move ex5 ⟨-1, 1, .right, some [1]⟩ = .error .illegal := by
  rw [C01_move_refines_rules ex5 _ (by decide), if_neg (by decide)]
/-- a slide with `slides = None`, an empty tuple, a zero and a negative drop are refused -/
example : ¬ Rules.Legal ex5 ⟨1, 1, .right, none⟩ ∧ ¬ Rules.Legal ex5 ⟨1, 1, .right, some []⟩ ∧
    ¬ Rules.Legal ex5 ⟨1, 1, .right, some [0, 1]⟩ ∧ ¬ Rules.Legal ex5 ⟨1, 1, .right, some [2, -1]⟩ := by
  decide
/-- a placement on an empty square is legal -/
example : Rules.Legal ex5 ⟨4, 4, .placeStanding, none⟩ := by decide
example : (Rules.result ex5 ⟨4, 4, .placeStanding, none⟩).sq 4 4 = [W .standing] ∧
    (Rules.result ex5 ⟨4, 4, .placeStanding, none⟩).wStones = 13 := by decide

/-! ### 2. corollaries -/

/-- accepted iff legal -/
theorem C01_accept_iff_legal (p : Pos) (m : Move) (hwf : p.WF) :
    (∃ q, Impl.move p m = .ok q) ↔ Rules.Legal p m := by
  rw [C01_move_refines_rules p m hwf]
  by_cases hl : Legal p m
  · rw [if_pos hl]; exact ⟨fun _ => hl, fun _ => ⟨_, rfl⟩⟩
  · rw [if_neg hl]
    exact ⟨fun ⟨q, h⟩ => (by cases h), fun h => absurd h hl⟩

/-- the form most convenient for the properties built on top (C03, C04, C08, C15) -/
theorem C01_move_ok_iff (p : Pos) (m : Move) (q : Pos) (hwf : p.WF) :
    Impl.move p m = .ok q ↔ Rules.Legal p m ∧ q = Rules.result p m := by
  rw [C01_move_refines_rules p m hwf]
  by_cases hl : Legal p m
  · rw [if_pos hl]
    exact ⟨fun h => ⟨hl, by injection h with h; exact h.symm⟩, fun h => by rw [h.2]⟩
  · rw [if_neg hl]
    exact ⟨fun h => (by cases h), fun h => absurd h.1 hl⟩

/-- the same, through `Except.isOk` -/
theorem C01_isOk_iff_legal (p : Pos) (m : Move) (hwf : p.WF) :
    (Impl.move p m).isOk = true ↔ Rules.Legal p m := by
  rw [C01_move_refines_rules p m hwf]
  by_cases hl : Legal p m
  · rw [if_pos hl]; exact ⟨fun _ => hl, fun _ => rfl⟩
  · rw [if_neg hl]
    exact ⟨fun h => (by cases h), fun h => absurd h hl⟩

example : ∃ q, Impl.move ex5 mvCarry5 = .ok q :=
  (C01_accept_iff_legal ex5 mvCarry5 (by decide)).2 (by decide)

/-- A slide that leaves the board is refused, whatever the stacks look like: if some drop of the
    tuple would land outside the grid (a slide of `size` drops from an edge square, a path one
    square too long, …) `Position.move` raises `IllegalMove`.  The off-board stream of the tie
    (`gen.offboard_moves`) samples exactly this family. -/
theorem C01_offboard_refused (p : Pos) (m : Move) (hwf : p.WF) (hs : m.type.isSlide = true)
    {ds : List Nat} (hd : slideDrops m = some ds) {i : Nat} (hi : i < ds.length)
    (hout : p.inBounds (pathSq m i).1 (pathSq m i).2 = false) :
    ∀ q, Impl.move p m ≠ .ok q := by
  intro q hq
  have hl : Rules.Legal p m := (C01_accept_iff_legal p m hwf).1 ⟨q, hq⟩
  rcases hl with ⟨k, hk⟩ | ⟨ds', hs'⟩
  · have hkind := hk.kind
    cases hty : m.type <;> rw [hty] at hs hkind <;> simp_all [MoveType.isSlide, placeKind]
  · have : ds' = ds := by
      have := hs'.drops
      rw [hd] at this
      exact (Option.some.inj this).symm
    subst this
    have := hs'.pathIn i hi
    rw [hout] at this
    cases this

/-- hypotheses of `C01_offboard_refused` met: the six-stack on (0,3) of the 5x5 board slid right
    with five drops of one — a carry of exactly `size`, one square more than the row has -/
example : ∀ q, Impl.move ex5 ⟨0, 3, .right, some [1, 1, 1, 1, 1]⟩ ≠ .ok q :=
  C01_offboard_refused ex5 ⟨0, 3, .right, some [1, 1, 1, 1, 1]⟩ (by decide) (by decide)
    (ds := [1, 1, 1, 1, 1]) (by decide) (i := 4) (by decide) (by decide)

/-- no exception other than the domain's own escapes -/
theorem C01_no_crash (p : Pos) (m : Move) (hwf : p.WF) :
    ∀ c, Impl.move p m ≠ .error (.crash c) := by
  intro c
  rw [C01_move_refines_rules p m hwf]
  by_cases hl : Legal p m
  · rw [if_pos hl]; intro h; cases h
  · rw [if_neg hl]; intro h; cases h

example : ∀ c, Impl.move ex5 ⟨7, -3, .left, some [0]⟩ ≠ .error (.crash c) :=
  C01_no_crash ex5 _ (by decide)

/-- an accepted move advances the ply by one and keeps the size (holds for every position,
    well-formed or not) -/
theorem C01_ply_succ {p : Pos} {m : Move} {q : Pos} (h : Impl.move p m = .ok q) :
    q.ply = p.ply + 1 ∧ q.size = p.size :=
  move_ok h

example : (Rules.result ex5 mvFlatten).ply = ex5.ply + 1 ∧ (Rules.result ex5 mvFlatten).size = ex5.size :=
  C01_ply_succ (by rw [C01_move_refines_rules ex5 mvFlatten (by decide), if_pos (by decide)])

/-- a legal move leaves a well-formed position well-formed -/
theorem C01_result_WF {p : Pos} {m : Move} {q : Pos} (hwf : p.WF) (h : Impl.move p m = .ok q) :
    q.WF := by
  have hs := (C01_ply_succ h).2
  rw [C01_move_refines_rules p m hwf] at h
  by_cases hl : Legal p m
  · rw [if_pos hl] at h
    injection h with h
    refine ⟨by rw [hs]; exact hwf.1, ?_⟩
    rw [hs, ← h]
    unfold result
    split <;> simp
  · rw [if_neg hl] at h; cases h

/-! ### 3. stack order is preserved along the slide -/

/-- The squares of the successor of a legal slide, in the rule book's terms: the origin keeps
    what was not picked up, path square `i` receives `segment i` on top of its old (possibly
    flattened) content, every other square is untouched. -/
theorem C01_result_origin {p : Pos} {m : Move} {ds : List Nat} (h : SlideOK p m ds) :
    (Rules.result p m).atI m.x m.y = (p.atI m.x m.y).drop ds.sum := by
  obtain ⟨_, _, ex, ey⟩ := inBounds_nat p h.onBoard
  rw [result_slide_atI h h.onBoard]
  exact slideSquare_origin p m ds (by rw [ex, ey])

theorem C01_result_path {p : Pos} {m : Move} {ds : List Nat} (h : SlideOK p m ds)
    {i : Nat} (hi : i < ds.length) :
    (Rules.result p m).atI (pathSq m i).1 (pathSq m i).2 =
      segment p m ds i ++ flattened (pathStack p m i) := by
  have hb := h.pathIn i hi
  obtain ⟨_, _, ex, ey⟩ := inBounds_nat p hb
  rw [result_slide_atI h hb]
  exact slideSquare_path p m ds h.isSlide hi (by rw [ex, ey])

theorem C01_result_other {p : Pos} {m : Move} {ds : List Nat} (h : SlideOK p m ds)
    {x y : Int} (hb : p.inBounds x y = true) (h0 : (x, y) ≠ (m.x, m.y))
    (hp : ∀ i, i < ds.length → pathSq m i ≠ (x, y)) :
    (Rules.result p m).atI x y = p.atI x y := by
  obtain ⟨_, _, ex, ey⟩ := inBounds_nat p hb
  rw [result_slide_atI h hb]
  exact slideSquare_other p m ds (by rw [ex, ey]; exact h0) (by rw [ex, ey]; exact hp)

/-- Reading the pieces newly put on the path squares from the farthest square back to the
    first gives exactly the pieces picked up, in their original order (top first). -/
theorem C01_stack_order (p : Pos) (m : Move) (ds : List Nat) :
    (List.range ds.length).reverse.flatMap (segment p m ds) = carried p m ds :=
  flatMap_segment p m ds

/-- … and followed by what the origin keeps, the original stack. -/
theorem C01_stack_order_origin (p : Pos) (m : Move) (ds : List Nat) :
    (List.range ds.length).reverse.flatMap (segment p m ds) ++ (p.atI m.x m.y).drop ds.sum =
      p.atI m.x m.y := by
  rw [C01_stack_order]
  exact List.take_append_drop _ _

/-- The same statement about the successor position of a legal slide: the new pieces on the
    path squares (what lies above the old, possibly flattened, content), read from the
    farthest square back to the origin, then the origin's remainder, are the original stack. -/
theorem C01_stack_order_result {p : Pos} {m : Move} {ds : List Nat} (h : SlideOK p m ds) :
    (List.range ds.length).reverse.flatMap
        (fun i => ((Rules.result p m).atI (pathSq m i).1 (pathSq m i).2).take (ds.getD i 0)) ++
      (Rules.result p m).atI m.x m.y = p.atI m.x m.y := by
  have e : (List.range ds.length).reverse.flatMap
        (fun i => ((Rules.result p m).atI (pathSq m i).1 (pathSq m i).2).take (ds.getD i 0)) =
      (List.range ds.length).reverse.flatMap (segment p m ds) := by
    apply flatMap_congr_mem
    intro i hi
    have hi' : i < ds.length := by simpa using hi
    have hl := segment_length p m ds hi' h.height
    rw [C01_result_path h hi']
    have : ds.getD i 0 = ds[i] := by simp [List.getD_eq_getElem?_getD, hi']
    rw [this, ← hl, List.take_left]
  rw [e, C01_result_origin h]
  exact C01_stack_order_origin p m ds

/-- each path square receives exactly its drop count -/
theorem C01_segment_length (p : Pos) (m : Move) (ds : List Nat) {i : Nat} (hi : i < ds.length)
    (hh : ds.sum ≤ (p.atI m.x m.y).length) : (segment p m ds i).length = ds[i] :=
  segment_length p m ds hi hh

/-- non-vacuity: the flattening slide of `ex5` is a `SlideOK` with drops `[2, 1]` -/
private theorem ex5_flatten_ok : SlideOK ex5 mvFlatten [2, 1] := (slideOKb_iff _ _ _).1 (by decide)

example : (List.range 2).reverse.flatMap (segment ex5 mvFlatten [2, 1]) =
    [W .cap, B .flat, W .flat] := by decide
example : segment ex5 mvFlatten [2, 1] 0 = [B .flat, W .flat] ∧
    segment ex5 mvFlatten [2, 1] 1 = [W .cap] := by decide
example : (Rules.result ex5 mvFlatten).atI 3 1 = [W .cap] ++ flattened [B .standing] :=
  C01_result_path ex5_flatten_ok (i := 1) (by decide)
example : (segment ex5 mvCarry5 [2, 1, 1, 1] 0).length = 2 :=
  C01_segment_length ex5 mvCarry5 [2, 1, 1, 1] (i := 0) (by decide) (by decide)

/-! ### 4. a wall is only ever flattened by the final single-piece drop -/

theorem C01_wall_only_last {p : Pos} {m : Move} {ds : List Nat} (h : SlideOK p m ds)
    {i : Nat} (hi : i < ds.length) (hw : topKind (pathStack p m i) = some .standing) :
    i + 1 = ds.length ∧ ds[i] = 1 := by
  have h1 := (h.wall i hi hw).1
  have hpos := (slideDrops_pos h.drops).2
  have h2 := sum_take_succ ds hi
  have h3 := sum_take_add_drop ds (i + 1)
  have h4 := hpos ds[i] (by simp)
  have h5 := length_le_sum_of_pos (ds.drop (i + 1)) (fun d hd => hpos d (List.mem_of_mem_drop hd))
  rw [List.length_drop] at h5
  omega

/-- … and then the moving piece is the capstone, alone -/
theorem C01_wall_needs_cap {p : Pos} {m : Move} {ds : List Nat} (h : SlideOK p m ds)
    {i : Nat} (hi : i < ds.length) (hw : topKind (pathStack p m i) = some .standing) :
    topKind (p.atI m.x m.y) = some .cap ∧ (segment p m ds i).length = 1 := by
  have hl := C01_wall_only_last h hi hw
  exact ⟨(h.wall i hi hw).2, by rw [C01_segment_length p m ds hi h.height, hl.2]⟩

example : (1 : Nat) + 1 = [2, 1].length ∧ [2, 1][1] = 1 :=
  C01_wall_only_last ex5_flatten_ok (i := 1) (by decide) (by decide)

end Tak.C01

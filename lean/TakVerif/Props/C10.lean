/-
  C10 — the regularised-policy solver returns the distribution it is specified to.

  Property theorems.  `F` is ANY linearly ordered field: the theorems hold for the executable
  `Rat` instance of `Model/Solver.lean` that the driver runs (`C10_rat_model_is_instance`,
  `C10_contract_rat`) and for the same text read over `ℝ` (`C10_real_instance`).

  An input is the list `ps` of pairs `(π_i, q_i)` (K = `ps.length`), `lam` is the multiplier;
  `Valid lam ps` says K ≥ 1, `lam > 0`, every `π_i > 0`, `Σ π_i = 1`; `q` is arbitrary.
  `g lam ps α = Σ_i lam·π_i/(α − q_i)` is the model's own sum, `weights lam ps α` the returned
  vector.  "`α` above every `q`" is `∀ x ∈ ps, x.2 < α`.

  PARTIAL (DESIGN.md section 7): the theorems are about exact arithmetic.  IEEE rounding — the
  float32 resolution of `α`, rounding inside the sum, the way the C++ exit `sum == last_sum`
  fires in floating point (in exact arithmetic it provably never fires on its own:
  `C10_contract_cpp` shows the exit taken is always `sigma`) — is not modelled; the
  correspondence check observes it on every run and judges the observed output with the
  executable contract predicate `Solver.Contract`.
-/
import Mathlib.Data.Real.Basic
import Mathlib.Algebra.Order.Field.Rat
import Mathlib.Algebra.BigOperators.Fin
import Mathlib.Algebra.BigOperators.Group.Finset.Basic
import TakVerif.Lemmas.SolverSpec
import TakVerif.Lemmas.SolverReal

set_option linter.unusedSectionVars false
set_option linter.unusedVariables false

namespace Tak.C10
open Tak.Solver

variable {F : Type} [Field F] [LinearOrder F] [IsStrictOrderedRing F]

/-! ### C10_bracket -/

/-- For every K ≥ 1 the two ends of the bracket exist, the lower end `lo₀ = max_i(q_i + λπ_i)`
    is above every `q_i`, and `g(lo₀) ≥ 1 ≥ g(hi₀)` with `hi₀ = max_i(q_i + λ)`; moreover
    `lo₀ ≤ hi₀ < lo₀ + λ`. -/
theorem C10_bracket {lam : F} {ps : List (F × F)} (hv : Valid lam ps) :
    ∃ lo hi, lo0 lam ps = some lo ∧ hi0 lam ps = some hi ∧
      (∀ x ∈ ps, x.2 < lo) ∧ 1 ≤ g lam ps lo ∧ g lam ps hi ≤ 1 ∧ lo ≤ hi ∧ hi - lo < lam := by
  obtain ⟨lo, hlo⟩ := maxOver_isSome (fun x : F × F => x.2 + lam * x.1) hv.ne
  obtain ⟨hi, hhi⟩ := maxOver_isSome (fun x : F × F => x.2 + lam) hv.ne
  exact ⟨lo, hi, hlo, hhi, lo0_above hv hlo, g_lo0_ge_one hv hlo, g_hi0_le_one hv hhi,
    lo0_le_hi0 hv hlo hhi, hi0_sub_lo0_lt hv hlo hhi⟩

example : ∃ lo hi, lo0 (1 / 2 : ℚ) exPs = some lo ∧ hi0 (1 / 2 : ℚ) exPs = some hi ∧
    (∀ x ∈ exPs, x.2 < lo) ∧ 1 ≤ g (1 / 2) exPs lo ∧ g (1 / 2) exPs hi ≤ 1 ∧ lo ≤ hi ∧ hi - lo < 1 / 2 :=
  C10_bracket exValid

/-- the bracket of the example is `[5/8, 1]`: not degenerate -/
example : lo0 (1 / 2 : ℚ) exPs = some (5 / 8) ∧ hi0 (1 / 2 : ℚ) exPs = some 1 := by
  decide +kernel

/-! ### C10_antitone -/

/-- `g` is strictly decreasing on `(max q, ∞)`; hence it takes the value one at most once
    there. -/
theorem C10_antitone {lam : F} {ps : List (F × F)} (hv : Valid lam ps) :
    (∀ a b, (∀ x ∈ ps, x.2 < a) → a < b → g lam ps b < g lam ps a) ∧
    (∀ a b, (∀ x ∈ ps, x.2 < a) → (∀ x ∈ ps, x.2 < b) → g lam ps a = 1 → g lam ps b = 1 → a = b) :=
  ⟨fun _ _ ha hab => g_strictAnti hv.ne hv.lam_pos hv.pi_pos ha hab,
   fun _ _ ha hb h1 h2 => g_inj hv.ne hv.lam_pos hv.pi_pos ha hb (h1.trans h2.symm)⟩

example : g (1 / 2 : ℚ) exPs 2 < g (1 / 2 : ℚ) exPs 1 :=
  (C10_antitone exValid).1 1 2
    (by intro x hx; simp [exPs] at hx; rcases hx with rfl | rfl | rfl <;> norm_num) (by norm_num)

/-- the same two theorems for inputs indexed by `Fin K`, `K ≥ 1`, with `Finset` sums:
    `lo₀` and `hi₀` are the maxima they are named after, `lo₀` is above every `q i`,
    `Σ_i λπ_i/(lo₀ − q_i) ≥ 1 ≥ Σ_i λπ_i/(hi₀ − q_i)`, and the sum is strictly decreasing above
    `max q`. -/
theorem C10_bracket_antitone_fin {K : Nat} {lam : F} {π q : Fin K → F} (hK : 0 < K) (hl : 0 < lam)
    (hp : ∀ i, 0 < π i) (hs : ∑ i, π i = 1) :
    (∃ lo hi, (∀ i, q i + lam * π i ≤ lo) ∧ (∃ i, q i + lam * π i = lo) ∧
        (∀ i, q i + lam ≤ hi) ∧ (∃ i, q i + lam = hi) ∧ (∀ i, q i < lo) ∧
        1 ≤ ∑ i, lam * π i / (lo - q i) ∧ ∑ i, lam * π i / (hi - q i) ≤ 1) ∧
    (∀ a b, (∀ i, q i < a) → a < b → ∑ i, lam * π i / (b - q i) < ∑ i, lam * π i / (a - q i)) := by
  have hv := valid_ofFin (q := q) hK hl hp hs
  constructor
  · obtain ⟨lo, hi, hlo, hhi, h1, h2, h3, -, -⟩ := C10_bracket hv
    rw [g_ofFin] at h2 h3
    obtain ⟨a1, a2⟩ := maxOver_spec hlo
    obtain ⟨b1, b2⟩ := maxOver_spec hhi
    refine ⟨lo, hi, fun i => a1 _ (mem_ofFin.mpr ⟨i, rfl⟩), ?_, fun i => b1 _ (mem_ofFin.mpr ⟨i, rfl⟩), ?_,
      fun i => h1 _ (mem_ofFin.mpr ⟨i, rfl⟩), h2, h3⟩
    · obtain ⟨y, hy, e⟩ := a2
      obtain ⟨i, rfl⟩ := mem_ofFin.mp hy
      exact ⟨i, e⟩
    · obtain ⟨y, hy, e⟩ := b2
      obtain ⟨i, rfl⟩ := mem_ofFin.mp hy
      exact ⟨i, e⟩
  · intro a b ha hab
    have := (C10_antitone hv).1 a b (by intro x hx; obtain ⟨i, rfl⟩ := mem_ofFin.mp hx; exact ha i) hab
    rwa [g_ofFin, g_ofFin] at this

example : ∑ i : Fin 2, (1 / 2 : ℚ) * (1 / 2) / (3 - ((i : ℕ) : ℚ) / 2)
    < ∑ i : Fin 2, (1 / 2 : ℚ) * (1 / 2) / (2 - ((i : ℕ) : ℚ) / 2) :=
  (C10_bracket_antitone_fin (K := 2) (lam := (1 / 2 : ℚ)) (π := fun _ => 1 / 2)
    (q := fun i => ((i : ℕ) : ℚ) / 2) (by norm_num) (by norm_num) (fun _ => by norm_num)
    (by simp)).2 2 3
    (by
      intro i
      have : ((i : ℕ) : ℚ) ≤ 1 := by exact_mod_cast Nat.le_of_lt_succ i.2
      linarith)
    (by norm_num)

/-- Over `ℝ` the distribution the solver is specified to return exists and is unique: there
    is exactly one `α` above every `q_i` with `Σ_i λπ_i/(α − q_i) = 1`, and it lies in the
    bracket `[lo₀, hi₀]` (intermediate value theorem + `C10_bracket` + `C10_antitone`). -/
theorem C10_root_real {lam : ℝ} {ps : List (ℝ × ℝ)} (hv : Valid lam ps) :
    ∃! α, (∀ x ∈ ps, x.2 < α) ∧ g lam ps α = 1 := by
  obtain ⟨lo, hi, hlo, hhi, habove, h1, h2, hle, -⟩ := C10_bracket hv
  obtain ⟨α, hα, hg⟩ :=
    intermediate_value_Icc' hle (g_continuousOn (lam := lam) (hi := hi) habove) ⟨h2, h1⟩
  have haα : ∀ x ∈ ps, x.2 < α := fun x hx => lt_of_lt_of_le (habove x hx) hα.1
  refine ⟨α, ⟨haα, hg⟩, ?_⟩
  rintro β ⟨hβ, hgβ⟩
  exact (C10_antitone hv).2 β α hβ haα hgβ hg

example : ∃! α : ℝ, (∀ x ∈ [((1 : ℝ) / 2, (0 : ℝ)), (1 / 2, 1 / 2)], x.2 < α) ∧
    g (1 / 2 : ℝ) [(1 / 2, 0), (1 / 2, 1 / 2)] α = 1 :=
  C10_root_real ⟨by simp, by norm_num, by simp, by norm_num⟩

/-! ### C10_invariant -/

/-- Every bisection iterate (`iter k` = the bracket after `k` updates, the trajectory both
    loops follow) keeps `g(lo) ≥ 1 ≥ g(hi)`, keeps `lo` above every `q_i` (and at or above the
    initial lower end), has the candidate `α` at the midpoint, and the width halves each
    round: `hi_k − lo_k = (hi₀ − lo₀)/2^k`. -/
theorem C10_invariant {lam : F} {ps : List (F × F)} (hv : Valid lam ps) {s0 : St F}
    (h0 : init lam ps = some s0) (k : Nat) :
    let s := iter lam ps k s0
    1 ≤ g lam ps s.lo ∧ g lam ps s.hi ≤ 1 ∧ (∀ x ∈ ps, x.2 < s.lo) ∧ s0.lo ≤ s.lo ∧ s.lo ≤ s.hi ∧
      s.a = (s.lo + s.hi) / 2 ∧ s.hi - s.lo = (s0.hi - s0.lo) / 2 ^ k := by
  have hinv := (Inv.init hv h0).iter k
  exact ⟨hinv.glo, hinv.ghi, hinv.above, hinv.base, hinv.le, hinv.mid,
    iter_width s0 (init_spec h0).2.2 k⟩

example : ∃ s0, init (1 / 2 : ℚ) exPs = some s0 ∧
    (iter (1 / 2) exPs 3 s0).hi - (iter (1 / 2) exPs 3 s0).lo = (s0.hi - s0.lo) / 2 ^ 3 := by
  obtain ⟨s0, h0⟩ := init_isSome (lam := (1 / 2 : ℚ)) exValid.ne
  exact ⟨s0, h0, (C10_invariant exValid h0 3).2.2.2.2.2.2⟩

/-! ### C10_contract -/

/-- `L` is at most the bound `Σ_i 1/(λπ_i)` of DESIGN.md (indeed at most `1/(λπ_j)` at the
    arg-max `j` of `q`). -/
theorem C10_L_le {lam lo m : F} {ps : List (F × F)} (hv : Valid lam ps)
    (hlo : lo0 lam ps = some lo) (hm : maxOver Prod.snd ps = some m) :
    0 < lo - m ∧ Lip lo m ≤ (ps.map fun x => 1 / (lam * x.1)).sum := by
  obtain ⟨y, hy, hle⟩ := lo0_sub_qmax_ge hv hlo hm
  have hpos := mul_pos hv.lam_pos (hv.pi_pos y hy)
  refine ⟨by linarith, ?_⟩
  have h1 : Lip lo m ≤ 1 / (lam * y.1) := by
    unfold Lip
    exact div_le_div_of_nonneg_left zero_le_one hpos hle
  have h2 : 1 / (lam * y.1) ≤ (ps.map fun x => 1 / (lam * x.1)).sum := by
    apply List.single_le_sum
    · intro v hv'
      obtain ⟨z, hz, rfl⟩ := List.mem_map.mp hv'
      exact (div_pos one_pos (mul_pos hv.lam_pos (hv.pi_pos z hz))).le
    · exact List.mem_map.mpr ⟨y, hy, rfl⟩
  exact h1.trans h2

example : ∃ lo m : ℚ, lo0 (1 / 2 : ℚ) exPs2 = some lo ∧ maxOver Prod.snd exPs2 = some m ∧
    0 < lo - m ∧ Lip lo m ≤ (exPs2.map fun x => 1 / ((1 / 2 : ℚ) * x.1)).sum := by
  obtain ⟨lo, hlo⟩ := maxOver_isSome (fun x : ℚ × ℚ => x.2 + 1 / 2 * x.1) exValid2.ne
  obtain ⟨m, hm⟩ := maxOver_isSome (Prod.snd : ℚ × ℚ → ℚ) exValid2.ne
  exact ⟨lo, m, hlo, hm, C10_L_le exValid2 hlo hm⟩

/-- The C++ solver, when it returns, returns `λπ_i/(α − q_i)` for one `α` above every `q_i`,
    all weights positive, total within `1e-3` of one; the exit taken is the tolerance exit
    (in exact arithmetic `sum == last_sum` never fires on its own); `α` is the midpoint of
    the bracket after `rounds − 1` halvings. -/
theorem C10_contract_cpp {lam : F} {ps : List (F × F)} (hv : Valid lam ps) {o : Out F}
    (h : solveCpp lam ps = .ok o) :
    Meets lam ps o.w (1 / 1000) ∧ o.exit = .sigma ∧ 1 ≤ o.rounds ∧ o.rounds ≤ 32 ∧
      ∃ s0, init lam ps = some s0 ∧ o.alpha = (iter lam ps (o.rounds - 1) s0).a := by
  unfold solveCpp at h
  split at h
  · next s0 h0 =>
    have hinv := Inv.init hv h0
    obtain ⟨j, hj, h1, h2, h3, h4, h5⟩ := loopCpp_ok hv 32 0 s0 none o hinv (by simp) h
    have habove : ∀ x ∈ ps, x.2 < o.alpha := h1 ▸ (hinv.iter j).above_a
    refine ⟨⟨o.alpha, habove, h3, h3 ▸ weights_pos hv habove, ?_⟩, h4, by omega, by omega,
      s0, h0, ?_⟩
    · rw [h3]; exact h5
    · rw [h2]; simpa using h1
  · exact absurd h (by simp)

/-- The Python solver, when it returns, returns `λπ_i/(α − q_i)` for one `α` above every
    `q_i`, all weights positive, and either the total is within `1e-3` of one or the width
    exit was taken and the total is within `L·1e-6` of one, `L = 1/(lo₀ − max q)`. -/
theorem C10_contract_py {lam lo m : F} {ps : List (F × F)} (hv : Valid lam ps)
    (hlo : lo0 lam ps = some lo) (hm : maxOver Prod.snd ps = some m) {o : Out F}
    (h : solvePy lam ps = .ok o) :
    (Meets lam ps o.w (1 / 1000) ∨ (o.exit = .width ∧ Meets lam ps o.w (Lip lo m * (1 / 1000000)))) ∧
      1 ≤ o.rounds ∧ o.rounds ≤ 32 := by
  unfold solvePy at h
  split at h
  · next s0 h0 =>
    have hinv := Inv.init hv h0
    have hlo' : s0.lo = lo := by
      have := (init_spec h0).1; rw [hlo] at this; exact (Option.some.inj this).symm
    obtain ⟨j, hj, h1, h2, h3, h4⟩ := loopPy_ok (b := lo) 32 0 s0 o h
    have hj' := hinv.iter (lam := lam) (ps := ps) j
    have habove : ∀ x ∈ ps, x.2 < o.alpha := h1 ▸ hj'.above_a
    have hpos := h3 ▸ weights_pos hv habove
    refine ⟨?_, by omega, by omega⟩
    rcases h4 with ⟨he, hs⟩ | ⟨he, hw⟩
    · left
      exact ⟨o.alpha, habove, h3, hpos, by rw [h3]; exact hs⟩
    · right
      refine ⟨he, o.alpha, habove, h3, hpos, ?_⟩
      have hq : ∀ x ∈ ps, x.2 ≤ m := fun x hx => (maxOver_spec hm).1 x hx
      have hml : m < s0.lo := by rw [hlo']; exact (C10_L_le hv hlo hm).1 |> sub_pos.mp
      have herr := hj'.err_le_width hv hq hml
      rw [← h1, hlo'] at herr
      have hL : 0 ≤ 1 / (lo - m) := (div_pos one_pos (C10_L_le hv hlo hm).1).le
      rw [h3]
      unfold Lip
      calc |g lam ps o.alpha - 1| ≤ 1 / (lo - m) * ((iter lam ps j s0).hi - (iter lam ps j s0).lo) := herr
        _ ≤ 1 / (lo - m) * (1 / 1000000) := mul_le_mul_of_nonneg_left hw hL
  · exact absurd h (by simp)

/-- C10_contract: whatever either solver returns has the form `λπ_i/(α − q_i)` for a single
    `α` above every `q_i`, every weight positive, and
    `|Σw − 1| ≤ 1e-3  ∨  (width exit ∧ |Σw − 1| ≤ L·1e-6)`. -/
theorem C10_contract {lam lo m : F} {ps : List (F × F)} (hv : Valid lam ps)
    (hlo : lo0 lam ps = some lo) (hm : maxOver Prod.snd ps = some m) {o : Out F}
    (h : solveCpp lam ps = .ok o ∨ solvePy lam ps = .ok o) :
    ∃ α, (∀ x ∈ ps, x.2 < α) ∧ o.w = weights lam ps α ∧ (∀ v ∈ o.w, 0 < v) ∧
      (|o.w.sum - 1| ≤ 1 / 1000 ∨ (o.exit = .width ∧ |o.w.sum - 1| ≤ Lip lo m * (1 / 1000000))) := by
  rcases h with h | h
  · obtain ⟨α, h1, h2, h3, h4⟩ := (C10_contract_cpp hv h).1
    exact ⟨α, h1, h2, h3, Or.inl h4⟩
  · rcases (C10_contract_py hv hlo hm h).1 with ⟨α, h1, h2, h3, h4⟩ | ⟨he, α, h1, h2, h3, h4⟩
    · exact ⟨α, h1, h2, h3, Or.inl h4⟩
    · exact ⟨α, h1, h2, h3, Or.inr ⟨he, h4⟩⟩

/-- non-vacuity: on `exPs` both models return after 10 rounds by the tolerance exit; on
    `exPs2` the C++ model needs 29 rounds and the Python model leaves by the width exit
    after 20 — so both disjuncts of `C10_contract` occur. -/
example : brief (solveCppRat (1 / 2) exPs) = some (10, .sigma) ∧
    brief (solvePyRat (1 / 2) exPs) = some (10, .sigma) ∧
    brief (solveCppRat (1 / 2) exPs2) = some (29, .sigma) ∧
    brief (solvePyRat (1 / 2) exPs2) = some (20, .width) := by
  decide +kernel

/-! ### the executable contract predicate -/

/-- The executable predicate means what the theorems say: at resolution 0 (exact outputs), if
    the driver's `contractCheck` accepts `w` with total tolerance `tol`, then `w` meets the
    contract in the sense of `Meets` — one `α` above every `q_i`, `w_i = λπ_i/(α − q_i)`, all
    weights positive, `|Σw − 1| ≤ tol`. -/
theorem C10_contract_pred_sound {pi q w : List ℚ} {lam tol l h : ℚ}
    (hc : contractCheck 0 pi q lam (w.map some) tol = .ok (l, h)) :
    Meets lam (pi.zip q) w tol := by
  unfold contractCheck at hc
  split at hc
  · exact absurd hc (by simp)
  next hshape =>
  split at hc
  · exact absurd hc (by simp)
  next hdom =>
  rw [allFinite_map_some] at hc
  simp only at hc
  split at hc
  · exact absurd hc (by simp)
  next hnn =>
  split at hc
  · exact absurd hc (by simp)
  next hpos =>
  split at hc
  · exact absurd hc (by simp)
  next l' h' hint =>
  split at hc
  · exact absurd hc (by simp)
  next hlh =>
  split at hc
  · exact absurd hc (by simp)
  next habove =>
  split at hc
  · exact absurd hc (by simp)
  next hsum =>
  simp only [Except.ok.injEq, Prod.mk.injEq] at hc
  obtain ⟨rfl, rfl⟩ := hc
  have hlh' : l' ≤ h' := not_not.mp hlh
  obtain ⟨hl, hpi⟩ := not_not.mp hdom
  have hpi' : ∀ p ∈ pi, 0 < p := by
    intro p hp; simpa using (List.all_eq_true.mp hpi) p hp
  have hw' : ∀ v ∈ w, 0 < v := by
    intro v hv; simpa using (List.all_eq_true.mp (not_not.mp hpos)) v hv
  have hab : ∀ x ∈ pi.zip q, x.2 < l' := by
    intro x hx; simpa using (List.all_eq_true.mp (not_not.mp habove)) x hx
  have hs : |w.sum - 1| ≤ tol := by
    have := not_not.mp hsum; rwa [absv_eq_abs] at this
  have hlen : (pi.zip q).length = w.length := by
    simp only [List.length_map, not_or, not_not] at hshape
    simp only [List.length_zip]
    omega
  have hps : ∀ x ∈ pi.zip q, 0 < x.1 := by
    intro x hx
    exact hpi' x.1 (List.of_mem_zip (a := x.1) (b := x.2) hx).1
  unfold alphaInterval at hint
  simp only [sub_zero, add_zero, mul_one] at hint
  split at hint
  · next l0 h0 hmax hmin =>
    simp only [Option.some.injEq, Prod.mk.injEq] at hint
    obtain ⟨rfl, rfl⟩ := hint
    have hall : ∀ a ∈ List.zipWith (fun (x : ℚ × ℚ) wi => x.2 + lam * x.1 / wi) (pi.zip q) w, a = l0 := by
      intro a ha
      exact le_antisymm (maxL_spec hmax a ha) (le_trans hlh' (minL_spec hmin a ha))
    exact ⟨l0, hab, weights_of_all_eq _ _ hlen hw' hps hl hall, hw', hs⟩
  · exact absurd hint (by simp)

example : Meets (1 / 2 : ℚ) ([1 / 2, 1 / 2].zip [0, 0]) [1 / 2, 1 / 2] 0 := by
  cases h : contractCheck 0 [1 / 2, 1 / 2] [0, 0] (1 / 2) ([1 / 2, 1 / 2].map some) 0 with
  | ok lh => exact C10_contract_pred_sound (l := lh.1) (h := lh.2) h
  | error e =>
    have : ContractRes 0 [1 / 2, 1 / 2] [0, 0] (1 / 2) ([1 / 2, 1 / 2].map some) 0 = true := by
      decide +kernel
    unfold ContractRes at this
    rw [h] at this
    exact absurd this (by simp)

/-! ### the executable model is an instance -/

/-- The functions the native driver runs (`Model/Solver.lean`, elaborated without Mathlib,
    on core `Rat` with core's instances) are the generic model at `F = ℚ` with the ordered
    field structure the theorems are proved for: the two are the same term. -/
theorem C10_rat_model_is_instance (lam : ℚ) (ps : List (ℚ × ℚ)) :
    solveCppRat lam ps = solveCpp lam ps ∧ solvePyRat lam ps = solvePy lam ps :=
  ⟨rfl, rfl⟩

/-- hence the contract holds of what the driver's exact models return -/
theorem C10_contract_rat {lam lo m : ℚ} {ps : List (ℚ × ℚ)} (hv : Valid lam ps)
    (hlo : lo0 lam ps = some lo) (hm : maxOver Prod.snd ps = some m) {o : Out ℚ}
    (h : solveCppRat lam ps = .ok o ∨ solvePyRat lam ps = .ok o) :
    ∃ α, (∀ x ∈ ps, x.2 < α) ∧ o.w = weights lam ps α ∧ (∀ v ∈ o.w, 0 < v) ∧
      (|o.w.sum - 1| ≤ 1 / 1000 ∨ (o.exit = .width ∧ |o.w.sum - 1| ≤ Lip lo m * (1 / 1000000))) :=
  C10_contract hv hlo hm (by rwa [(C10_rat_model_is_instance lam ps).1, (C10_rat_model_is_instance lam ps).2] at h)

example : ∃ o, solveCppRat (1 / 2) exPs2 = .ok o ∧ ∃ α, (∀ x ∈ exPs2, x.2 < α) ∧
    o.w = weights (1 / 2) exPs2 α ∧ |o.w.sum - 1| ≤ 1 / 1000 := by
  obtain ⟨o, ho, -, -⟩ := brief_some (F := ℚ) (r := solveCppRat (1 / 2) exPs2) (by decide +kernel : _ = some (29, .sigma))
  obtain ⟨α, h1, h2, -, h4⟩ := (C10_contract_cpp exValid2 (o := o) (by rw [← (C10_rat_model_is_instance _ _).1]; exact ho)).1
  exact ⟨o, ho, α, h1, h2, h4⟩

/-- the same text over `ℝ` -/
theorem C10_real_instance {lam : ℝ} {ps : List (ℝ × ℝ)} (hv : Valid lam ps) {o : Out ℝ}
    (h : solveCpp lam ps = .ok o) : Meets lam ps o.w (1 / 1000) :=
  (C10_contract_cpp hv h).1

/-! ### termination -/

/-- In exact arithmetic the Python solver returns within its 32 rounds whenever
    `λ ≤ 2000` (the bracket is narrower than `λ`, and `2000/2³¹ ≤ 1e-6`); in the property's
    domain `λ = C·√N/(N+K) ≤ 4`. -/
theorem C10_python_terminates {lam : F} {ps : List (F × F)} (hv : Valid lam ps) (hl : lam ≤ 2000) :
    ∃ o, solvePy lam ps = .ok o := by
  obtain ⟨s0, h0⟩ := init_isSome (lam := lam) hv.ne
  obtain ⟨hlo, hhi, hmid⟩ := init_spec h0
  have hw := hi0_sub_lo0_lt hv hlo hhi
  unfold solvePy
  rw [h0]
  apply loopPy_terminates lam ps 31 0 s0 hmid
  have : (2000 : F) ≤ 1 / 1000000 * 2 ^ 31 := by norm_num
  linarith

example : ∃ o, solvePy (1 / 2 : ℚ) exPs2 = .ok o := C10_python_terminates exValid2 (by norm_num)

/-- *(partial: under an explicit conditioning hypothesis)*  In exact arithmetic the C++
    solver returns within its 32 rounds whenever the conditioning number
    `κ = λ/(lo₀ − max q)` satisfies `κ·1000 ≤ 2³²`.

    Full statement that is NOT proved (and is false without a hypothesis on the priors):
    `Valid lam ps → ∃ o, solveCpp lam ps = .ok o`.  A prior of `1e-10` at the arg-max of `q`
    with a dominant rest needs more than 32 halvings of the bracket to bring the sum within
    `1e-3`; the C++ solver has no width exit and throws.  `C10_cpp_terminates_of_cutoff` below
    shows the hypothesis holds on the whole domain of the property. -/
theorem C10_cpp_terminates_partial {lam lo m : F} {ps : List (F × F)} (hv : Valid lam ps)
    (hlo : lo0 lam ps = some lo) (hm : maxOver Prod.snd ps = some m)
    (hcond : lam / (lo - m) * 1000 ≤ 2 ^ 32) :
    ∃ o, solveCpp lam ps = .ok o := by
  have hpos : 0 < lo - m := (C10_L_le hv hlo hm).1
  obtain ⟨s0, h0⟩ := init_isSome (lam := lam) hv.ne
  obtain ⟨hlo', hhi, hmid⟩ := init_spec h0
  have hs : s0.lo = lo := by rw [hlo] at hlo'; exact (Option.some.inj hlo').symm
  subst hs
  have hw := hi0_sub_lo0_lt hv hlo' hhi
  have hinv := Inv.init hv h0
  have hq : ∀ x ∈ ps, x.2 ≤ m := fun x hx => (maxOver_spec hm).1 x hx
  unfold solveCpp
  rw [h0]
  apply loopCpp_terminates hv hq (by linarith) 31 0 s0 none hinv
  have h1 : (s0.hi - s0.lo) / 2 / (s0.lo - m) ≤ lam / 2 / (s0.lo - m) :=
    div_le_div_of_nonneg_right (by linarith) hpos.le
  have h2 : lam / 2 / (s0.lo - m) = lam / (s0.lo - m) * 1000 / 2000 := by ring
  have h3 : (2 : F) ^ 32 / 2000 = 1 / 1000 * 2 ^ 31 := by norm_num
  calc (s0.hi - s0.lo) / 2 / (s0.lo - m) ≤ lam / (s0.lo - m) * 1000 / 2000 := h2 ▸ h1
    _ ≤ 2 ^ 32 / 2000 := div_le_div_of_nonneg_right hcond (by norm_num)
    _ = 1 / 1000 * 2 ^ 31 := h3

/-- The conditioning hypothesis holds whenever every prior is at least `1000/2³² ≈ 2.33e-7`,
    in particular on the property's domain (priors at or above the search cutoff `1e-6`):
    there the C++ solver never throws in exact arithmetic. -/
theorem C10_cpp_terminates_of_cutoff {lam : F} {ps : List (F × F)} (hv : Valid lam ps)
    (hcut : ∀ x ∈ ps, 1000 ≤ 2 ^ 32 * x.1) : ∃ o, solveCpp lam ps = .ok o := by
  obtain ⟨lo, hlo⟩ := maxOver_isSome (fun x : F × F => x.2 + lam * x.1) hv.ne
  obtain ⟨m, hm⟩ := maxOver_isSome (Prod.snd : F × F → F) hv.ne
  apply C10_cpp_terminates_partial hv hlo hm
  obtain ⟨y, hy, hle⟩ := lo0_sub_qmax_ge hv hlo hm
  have hpos := mul_pos hv.lam_pos (hv.pi_pos y hy)
  have hlm : 0 < lo - m := by linarith
  have h1 : lam / (lo - m) ≤ lam / (lam * y.1) :=
    div_le_div_of_nonneg_left hv.lam_pos.le hpos hle
  have h2 : lam / (lam * y.1) = 1 / y.1 := by
    field_simp [hv.lam_pos.ne', (hv.pi_pos y hy).ne']
  have h3 : 1 / y.1 * 1000 ≤ 2 ^ 32 := by
    rw [div_mul_eq_mul_div, one_mul, div_le_iff₀ (hv.pi_pos y hy)]
    exact hcut y hy
  calc lam / (lo - m) * 1000 ≤ 1 / y.1 * 1000 := by rw [← h2]; exact mul_le_mul_of_nonneg_right h1 (by norm_num)
    _ ≤ 2 ^ 32 := h3

example : ∃ o, solveCpp (1 / 2 : ℚ) exPs2 = .ok o :=
  C10_cpp_terminates_of_cutoff exValid2 (by intro x hx; simp [exPs2] at hx; rcases hx with rfl | rfl <;> norm_num)

/-! ### C10_agree -/

/-- Two outputs that meet the contract for the same input — with total tolerances `t`, `t'`
    — are close: the sum over the components of `|w_i − w'_i|` is at most `t + t'` (all
    components move in the same direction with `α`), so in particular every component
    differs by at most `t + t'` (2e-3 when both left by the tolerance exit). -/
theorem C10_agree {lam t t' : F} {ps : List (F × F)} (hv : Valid lam ps) {w w' : List F}
    (h : Meets lam ps w t) (h' : Meets lam ps w' t') :
    (List.zipWith (fun u v => |u - v|) w w').sum ≤ t + t' := by
  obtain ⟨a, ha, rfl, -, hs⟩ := h
  obtain ⟨b, hb, rfl, -, hs'⟩ := h'
  have e1 := abs_le.mp hs
  have e2 := abs_le.mp hs'
  change -t ≤ g lam ps a - 1 ∧ g lam ps a - 1 ≤ t at e1
  change -t' ≤ g lam ps b - 1 ∧ g lam ps b - 1 ≤ t' at e2
  rcases le_total a b with hab | hab
  · rw [abs_sub_weights hv.lam_pos hv.pi_pos ha hab, sum_sub_weights]
    linarith [e1.2, e2.1]
  · have hsymm : List.zipWith (fun u v => |u - v|) (weights lam ps a) (weights lam ps b)
        = List.zipWith (fun u v => |u - v|) (weights lam ps b) (weights lam ps a) := by
      rw [List.zipWith_comm]
      congr 1
      funext u v
      exact abs_sub_comm _ _
    rw [hsymm, abs_sub_weights hv.lam_pos hv.pi_pos hb hab, sum_sub_weights]
    linarith [e1.1, e2.2]

/-- non-vacuity: an output meeting the contract exists (the C++ model's on `exPs`) -/
example : ∃ w : List ℚ, Meets (1 / 2) exPs w (1 / 1000) ∧
    (List.zipWith (fun u v => |u - v|) w w).sum ≤ 1 / 1000 + 1 / 1000 := by
  obtain ⟨o, ho, -, -⟩ := brief_some (F := ℚ) (r := solveCppRat (1 / 2) exPs)
    (by decide +kernel : _ = some (10, .sigma))
  have hm := (C10_contract_cpp exValid (o := o)
    (by rw [← (C10_rat_model_is_instance _ _).1]; exact ho)).1
  exact ⟨o.w, hm, C10_agree exValid hm hm⟩

/-- componentwise form -/
theorem C10_agree_pointwise {lam t t' : F} {ps : List (F × F)} (hv : Valid lam ps) {w w' : List F}
    (h : Meets lam ps w t) (h' : Meets lam ps w' t') :
    ∀ d ∈ List.zipWith (fun u v => |u - v|) w w', d ≤ t + t' := by
  intro d hd
  exact le_trans (List.single_le_sum (zipWith_abs_nonneg w w') d hd) (C10_agree hv h h')

end Tak.C10

/-
  C09 — search output is the regularised policy of the tree statistics; moves are legal.

  Model: `Tree.policyArgs`, `Tree.policyProbs`, `Tree.selectRootMove`, `Tree.getMove`
  (TakVerif/Model/Tree.lean; mcts.py `Node.policy_probs`, `select_root_move`, `get_move`).  The solver
  itself is C10's; here: the arguments handed to it are the ones the formula names, the formula's
  weights are non-negative and finite for every admissible normaliser, before any visit the answer is
  the prior, and whatever index the sampler draws the returned move is legal.

  Partial by nature (DESIGN.md section 7): float rounding of q and of the multiplier is observed by
  the correspondence check, not proved.
-/
import TakVerif.Props.C08
import Mathlib.Analysis.Real.Sqrt

namespace Tak.C09
open Tak.Tree

/-- The vector handed to the solver is exactly the one the formula names; and over the reals the
    multiplier `C·√N/(N+K)` is the non-negative number whose square the model carries. -/
theorem C09_args (t : Node) (cs : List Node) (C : Rat) (hc : t.children = some cs) :
    ∃ a, policyArgs t C = some a ∧ FormulaArgs t cs C a ∧
      (0 ≤ C → 0 ≤ (C : ℝ) * Real.sqrt (t.sims : ℝ) / ((t.sims : ℝ) + (cs.length : ℝ)) ∧
        ((C : ℝ) * Real.sqrt (t.sims : ℝ) / ((t.sims : ℝ) + (cs.length : ℝ))) ^ 2 = ((a.lamSq : Rat) : ℝ)) := by
  refine ⟨_, by unfold policyArgs; rw [hc]; rfl, ?_, ?_⟩
  · refine ⟨rfl, by simp, ?_, ?_, rfl, rfl, ?_⟩
    · intro i h hs
      simp only [List.getElem?_map, List.getElem?_eq_getElem h, Option.map_some, qOf_visited _ _ hs, neg_div]
    · intro i h hs
      simp only [List.getElem?_map, List.getElem?_eq_getElem h, Option.map_some, qOf_unvisited _ _ hs]
    · show C * C * (t.sims : Rat) / (((t.sims + cs.length : Nat) : Rat) * ((t.sims + cs.length : Nat) : Rat)) = _
      push_cast; ring
  · intro hC
    have hN : (0 : ℝ) ≤ (t.sims : ℝ) := Nat.cast_nonneg _
    have hK : (0 : ℝ) ≤ (cs.length : ℝ) := Nat.cast_nonneg _
    have hC' : (0 : ℝ) ≤ (C : ℝ) := by exact_mod_cast hC
    constructor
    · exact div_nonneg (mul_nonneg hC' (Real.sqrt_nonneg _)) (by linarith)
    · show _ = ((C * C * (t.sims : Rat) / (((t.sims + cs.length : Nat) : Rat) * ((t.sims + cs.length : Nat) : Rat)) : Rat) : ℝ)
      rw [div_pow, mul_pow, Real.sq_sqrt hN]
      push_cast; ring

/-- Before any visit the reported distribution is the prior, whatever the solver would say. -/
theorem C09_unvisited (solver : PolicyArgs → List Rat) (t : Node) (C : Rat) (h : t.sims = 0) :
    policyProbs solver t C = some t.priors := by
  unfold policyProbs; rw [if_pos h]

/-- after a visit it is the solver applied to the formula's arguments -/
theorem C09_visited (solver : PolicyArgs → List Rat) (t : Node) (cs : List Node) (C : Rat)
    (h : t.sims ≠ 0) (hc : t.children = some cs) :
    ∃ a, policyArgs t C = some a ∧ FormulaArgs t cs C a ∧ policyProbs solver t C = some (solver a) := by
  obtain ⟨a, ha, hf, _⟩ := C09_args t cs C hc
  refine ⟨a, ha, hf, ?_⟩
  unfold policyProbs; rw [if_neg h, ha]; rfl

/-- The formula's weights `λ·π_i/(α − q_i)` are finite (the denominator is positive) and
    non-negative for every normaliser `α` above every `q_i`, every `λ > 0` and non-negative priors;
    positive where the prior is positive. -/
theorem C09_nonneg_finite {K : Nat} (prior q : Fin K → ℝ) (lam α : ℝ) (hlam : 0 < lam)
    (hprior : ∀ i, 0 ≤ prior i) (hα : ∀ i, q i < α) (i : Fin K) :
    0 < α - q i ∧ 0 ≤ lam * prior i / (α - q i) ∧ (0 < prior i → 0 < lam * prior i / (α - q i)) := by
  have hd : 0 < α - q i := sub_pos.2 (hα i)
  exact ⟨hd, div_nonneg (mul_nonneg hlam.le (hprior i)) hd.le, fun h => div_pos (mul_pos hlam h) hd⟩

/-- … in particular for the statistics of any node of a tree satisfying the invariant (positive
    cutoff): the priors handed to the solver are positive and sum to one, so every weight
    `λ·π_i/(α − q_i)` with `α` above every q is positive. -/
theorem C09_tree_weights_pos (cfg : Cfg) (hcut : 0 < cfg.cutoff) (t : Node) (hinv : TreeInv cfg Tol.exact t)
    (cs : List Node) (hc : t.children = some cs) (hne : cs ≠ []) (C : Rat) (a : PolicyArgs)
    (ha : policyArgs t C = some a) (lam α : Rat) (hlam : 0 < lam) (hα : ∀ x ∈ a.q, x < α) :
    a.prior.sum = 1 ∧ ∀ x ∈ a.prior.zip a.q, 0 < lam * x.1 / (α - x.2) := by
  obtain ⟨a', ha', hf, _⟩ := C09_args t cs C hc
  rw [ha] at ha'
  cases ha'
  obtain ⟨hsum, hpos⟩ := C08.C08_priors_normalised cfg hcut t hinv cs hc hne
  rw [hf.prior]
  refine ⟨hsum, ?_⟩
  intro x hx
  have h1 : 0 < x.1 := hpos _ (List.of_mem_zip hx).1
  have h2 : x.2 < α := hα _ (List.of_mem_zip hx).2
  exact div_pos (mul_pos hlam h1) (sub_pos.2 h2)

/-- Whatever index the sampler draws, the move `select_root_move` returns is legal in the root
    position. -/
theorem C09_move_legal (cfg : Cfg) (tol : Tol) (t : Node) (hinv : TreeInv cfg tol t)
    (cs : List Node) (hc : t.children = some cs) (i : Nat) (hi : i < cs.length) :
    ∃ m, selectRootMove t i = some m ∧ Rules.Legal t.position m := by
  have hall := (C08.C08_children_legal cfg tol t hinv).here
  obtain ⟨m, hm, hl, _⟩ := hall cs hc cs[i] (List.getElem_mem hi)
  refine ⟨m, ?_, hl⟩
  unfold selectRootMove
  rw [hc]
  simp only [List.getElem?_eq_getElem hi, hm]

/-- The move `get_move` returns for a position is a legal move of that position (any budget ≥ 1,
    any sampler choices, any evaluator answers, any final draw). -/
theorem C09_get_move_legal (cfg : Cfg) (n : Nat) (hn : 0 < n) (p : Pos) (hwf : p.WF)
    (choices : List Nat) (answers : List Answer) (i : Nat) (m : Move)
    (h : getMove cfg n p choices answers i = some m) : Rules.Legal p m := by
  unfold getMove at h
  cases ha : analyze cfg n p choices answers with
  | none => rw [ha] at h; cases h
  | some t =>
    rw [ha] at h
    simp only at h
    have hz : (0 : Rat) ≤ 0 := le_refl _
    have hinv := (C08.C08_analyze cfg Tol.exact hz hz n hn (fresh p none) t choices answers
      (fresh_inv cfg Tol.exact p none hwf) ha).1
    have hpos := (C08.C08_position_untouched cfg Tol.exact hz hz n hn (fresh p none) t choices
      answers (fresh_inv cfg Tol.exact p none hwf) ha).1
    unfold selectRootMove at h
    cases hc : t.children with
    | none => rw [hc] at h; cases h
    | some cs =>
      rw [hc] at h
      simp only at h
      cases hci : cs[i]? with
      | none => rw [hci] at h; cases h
      | some c =>
        rw [hci] at h
        simp only at h
        obtain ⟨hlt, hget⟩ := List.getElem?_eq_some_iff.1 hci
        obtain ⟨m', hm', hl⟩ := C09_move_legal cfg Tol.exact t hinv cs hc i hlt
        unfold selectRootMove at hm'
        rw [hc] at hm'
        simp only [hci] at hm'
        rw [h] at hm'
        cases hm'
        have : t.position = p := hpos
        rw [this] at hl
        exact hl

/-! ### Closed corollaries for the real engine (`realCfg`: `Impl.winner`, `Gen.allMovesForSize`) -/

/-- whatever index the sampler draws at the root of a tree the real engine built, the returned
    move is legal in the root position -/
theorem C09_move_legal_real (cutoff : Rat) (noise : Bool) (mix : Rat) (tol : Tol) (t : Node)
    (hinv : TreeInv (realCfg cutoff noise mix) tol t) (cs : List Node) (hc : t.children = some cs)
    (i : Nat) (hi : i < cs.length) :
    ∃ m, selectRootMove t i = some m ∧ Rules.Legal t.position m :=
  C09_move_legal (realCfg cutoff noise mix) tol t hinv cs hc i hi

/-- `get_move` of the real engine (adjudication by `Impl.winner`, real move table) on a well-formed
    position returns a move that is legal in that position — for every budget ≥ 1, every stream of
    sampler draws and evaluator answers, every final draw -/
theorem C09_get_move_legal_real (cutoff : Rat) (noise : Bool) (mix : Rat) (n : Nat) (hn : 0 < n) (p : Pos)
    (hwf : p.WF) (choices : List Nat) (answers : List Answer) (i : Nat) (m : Move)
    (h : getMove (realCfg cutoff noise mix) n p choices answers i = some m) : Rules.Legal p m :=
  C09_get_move_legal (realCfg cutoff noise mix) n hn p hwf choices answers i m h

/-! ### Non-vacuity (the concrete search of Props/C08.lean: 3 visits, 2 children, both visited) -/

open Tak.C08 in
example : (analyze exCfg 3 exPos [0, 1, 0] exAnswers).all (fun t =>
    decide (TreeInv exCfg Tol.exact t) &&
    decide (policyArgs t 4 =
      some { prior := [7 / 11, 4 / 11], q := [1 / 4, -1], N := 3, K := 2, lamSq := 48 / 25 }) &&
    decide (policyProbs (fun a => a.q) t 4 = some [1 / 4, -1]) &&
    decide (policyProbs (fun a => a.q) { t with sims := 0 } 4 = some [7 / 11, 4 / 11]) &&
    decide (selectRootMove t 1 = some ⟨1, 0, .placeFlat, none⟩) &&
    decide (Rules.Legal t.position ⟨1, 0, .placeFlat, none⟩) &&
    decide (selectRootMove t 2 = none)) = true := by
  decide +kernel

open Tak.C08 in
example : getMove exCfg 3 exPos [0, 1, 0] exAnswers 0 = some ⟨0, 0, .placeFlat, none⟩ := by
  decide +kernel

example : 0 ≤ (2 : ℝ) * (7 / 11) / (1 / 2 - 1 / 4) :=
  (C09_nonneg_finite (K := 2) (fun _ => 7 / 11) (fun _ => 1 / 4) 2 (1 / 2) (by norm_num)
    (fun _ => by norm_num) (fun _ => by norm_num) 0).2.1

end Tak.C09

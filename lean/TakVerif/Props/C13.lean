/-
  C13 — TPS position notation is faithful and round-trips.

  Model:  `Tak.TPS.formatTPS` / `Tak.TPS.parseTPS`  (python/tak/ptn/tps.py, repaired parser)
  Spec:   `Tak.Spec.TPS.Grammar`, `Canonical`, `writeTPS`, `TPSWF`  (from the TPS standard)
  Proofs: `TakVerif/Lemmas/TPS{Split,Row,Board,Main,Complete}.lean`; this file only states the
          property theorems and shows their hypotheses are inhabited.
  `Tak.TPS.reparsed p` (Lemmas/TPSMain.lean) is `p` with the reserves replaced by the standard
  piece set of `p.size` minus the pieces on the board — spelled out in `C13_parse_format`.

  `TPSWF p`: a `size × size` board, `3 ≤ size ≤ 8`, `0 ≤ ply`, and every non-empty stack has
  only flats below its top piece.  The last condition is not a weakness of the proof: TPS has
  one mark per square, read as the kind of the TOP piece, so a position with a buried wall or
  capstone has no TPS text that means it (and no such position is reachable in play).
-/
import TakVerif.Lemmas.TPSComplete

namespace Tak.C13
open Tak.TPS Tak.Spec.TPS

/-- **C13_format_is_standard**: `format_tps` writes exactly what the TPS standard prescribes:
    ranks from the top rank down, files left to right, stacks bottom to top with the mark of
    the top piece, maximal runs of empty squares as `x`/`x<n>`, side to move, move number. -/
theorem C13_format_is_standard (p : Pos) (h : TPSWF p) : formatTPS p = writeTPS p :=
  Tak.TPS.format_is_standard p h

/-- **C13_parse_format**: parsing the text of any position TPS can express gives back the
    same size, board and ply (hence side to move and move number); the reserves are those of
    the STANDARD piece set of that size minus the pieces on the board. -/
theorem C13_parse_format (p : Pos) (h : TPSWF p) :
    parseTPS (formatTPS p) = .ok
      { size := p.size, ply := p.ply, board := p.board,
        wStones := defaultPieces p.size - (p.onBoard .white false : Nat),
        wCaps := defaultCaps p.size - (p.onBoard .white true : Nat),
        bStones := defaultPieces p.size - (p.onBoard .black false : Nat),
        bCaps := defaultCaps p.size - (p.onBoard .black true : Nat) } :=
  Tak.TPS.parse_format p h

/-- corollary: a position whose reserves are the standard set minus the pieces on the board
    (every position reached by play from the standard opening) round-trips EXACTLY -/
theorem C13_parse_format_exact (p : Pos) (h : TPSWF p) (hr : reparsed p = p) :
    parseTPS (formatTPS p) = .ok p :=
  Tak.TPS.parse_format_exact p h hr

/-- **C13_format_parse**: a canonical text that is accepted is reproduced character for
    character by formatting the parsed position. -/
theorem C13_format_parse (t : List Char) (p : Pos) (hc : Canonical t)
    (h : parseTPS t = .ok p) : formatTPS p = t :=
  Tak.TPS.format_parse t p hc h

/-- **C13_sound**: nothing outside the TPS grammar is accepted (malformed text is refused,
    never silently reinterpreted). -/
theorem C13_sound (t : List Char) (p : Pos) (h : parseTPS t = .ok p) : Grammar t :=
  Tak.TPS.sound t p h

/-- **C13_no_crash**: the only way `parse_tps` fails is its own error (`IllegalTPS`): no input
    reaches an `IndexError`/`ValueError`/... branch; in particular `Position.from_squares`
    always receives `size*size` squares. -/
theorem C13_no_crash (t : List Char) (c : String) : parseTPS t ≠ .error (.crash c) :=
  Tak.TPS.no_crash t c

/-- **C13_complete** (in addition to DESIGN's list): every text of the grammar is accepted —
    with `C13_sound`, the repaired parser accepts EXACTLY the grammar (including the lenient
    forms `x1`…`x8`, split runs and leading zeros of the move number) — and what it returns is
    always a position TPS can express. -/
theorem C13_complete (t : List Char) (h : Grammar t) : ∃ p, parseTPS t = .ok p ∧ TPSWF p := by
  obtain ⟨p, hp⟩ := Tak.TPS.complete t h
  exact ⟨p, hp, Tak.TPS.parse_tpswf t p hp⟩

/-- **C13_accepted_means_standard** (in addition): whatever text is accepted, lenient or
    canonical, denotes the position `p` whose own standard text `writeTPS p` is read back as
    `p`: a text means what the standard says it means. -/
theorem C13_accepted_means_standard (t : List Char) (p : Pos) (h : parseTPS t = .ok p) :
    parseTPS (writeTPS p) = .ok p :=
  Tak.TPS.accepted_means_standard t p h

/-! ### non-vacuity: the hypotheses are met by concrete, non-trivial values -/

instance : DecidableEq (Except TPSErr Pos) := fun a b =>
  match a, b with
  | .ok x, .ok y => if h : x = y then isTrue (by rw [h]) else isFalse (fun e => h (by injection e))
  | .error x, .error y =>
    if h : x = y then isTrue (by rw [h]) else isFalse (fun e => h (by injection e))
  | .ok _, .error _ => isFalse (fun e => by cases e)
  | .error _, .ok _ => isFalse (fun e => by cases e)

/-- the 5x5 text of python/test/ptn/test_ptn.py -/
def t5 : List Char :=
  "x3,12,2S/x,22S,22C,11,21/121,212,12,1121C,1212S/21S,1,21,211S,12S/x,21S,2,x2 1 26".toList

/-- the position that text denotes (bottom rank first, every stack top piece first) -/
def p5 : Pos :=
  match parseTPS t5 with
  | .ok p => p
  | .error _ => default

example : Canonical t5 := by decide +kernel
example : Grammar t5 := by decide +kernel
example : parseTPS t5 = .ok p5 := by decide +kernel
example : TPSWF p5 := by decide +kernel
example : p5.size = 5 ∧ p5.ply = 50 ∧ p5.sq 3 2 = [⟨.white, .cap⟩, ⟨.black, .flat⟩, ⟨.white, .flat⟩, ⟨.white, .flat⟩] := by
  decide +kernel
example : formatTPS p5 = t5 := C13_format_parse t5 p5 (by decide +kernel) (by decide +kernel)
example : writeTPS p5 = t5 := by
  rw [← C13_format_is_standard p5 (by decide +kernel)]
  exact C13_format_parse t5 p5 (by decide +kernel) (by decide +kernel)
example : reparsed p5 = p5 := by decide +kernel
example : parseTPS (formatTPS p5) = .ok p5 :=
  C13_parse_format_exact p5 (by decide +kernel) (by decide +kernel)
example : Grammar t5 := C13_sound t5 p5 (by decide +kernel)
example : parseTPS (writeTPS p5) = .ok p5 := C13_accepted_means_standard t5 p5 (by decide +kernel)
example : parseTPS "x1,x2/x,1,x1/x3 2 07".toList = .ok
    ⟨3, 9, 0, 10, 0, 13, [[], [], [], [], [⟨.white, .flat⟩], [], [], [], []]⟩ := by decide +kernel
example : ∃ p, parseTPS "x1,x2/x,1,x1/x3 2 07".toList = .ok p ∧ TPSWF p :=
  C13_complete _ (by decide +kernel)
/-- lenient but grammatical: accepted, not canonical -/
example : Grammar "x1,x2/x,1,x1/x3 2 07".toList ∧ ¬ Canonical "x1,x2/x,1,x1/x3 2 07".toList := by
  decide +kernel
/-- malformed texts are outside the grammar and refused with the parser's own error -/
example : ¬ Grammar "x3/x3/1S2,x2 1 1".toList ∧
    parseTPS "x3/x3/1S2,x2 1 1".toList = .error .illegal := by decide +kernel
example : parseTPS "x3/x3/1,,2 1 1".toList = .error .illegal := by decide +kernel
example : parseTPS "x3/x3/xq 1 1".toList = .error .illegal := by decide +kernel
example : parseTPS "x3/x3/x3 12 1".toList = .error .illegal := by decide +kernel
example : parseTPS "x3/x3/x3 1 0".toList = .error .illegal := by decide +kernel

end Tak.C13

/-
  C19 — training state survives snapshots, mode switches and interruption.

  Property theorems only (helper lemmas: `Lemmas/Snapshot*.lean`; model: `Model/Snapshot.lean`).
  All statements are about the REPAIRED snapshot protocol (`saveOps` / `hookOps`), for every
  run directory satisfying the invariant `FsInv`, every train state, every scan-order oracle,
  every crash index `k` (a crash between or inside file-system operations is a prefix of the
  operation list; `create` leaves a file partial, `finish` completes it).  The three `…_witness`
  theorems show the failing histories of the pinned protocol (F11, F12) and of the first draft of
  the repair.
-/
import TakVerif.Lemmas.SnapshotExamples

namespace Tak.C19
open Tak.Snapshot

/-! ### round trip -/

/-- **C19_roundtrip.** A save that is not interrupted runs to its end (no operation raises) and a
    fresh run then resumes exactly the saved state — parameters, optimiser state, replay buffer
    and counters.  `hsame` is the one thing a save relies on: if the snapshot `latest` designates
    carries the same step counter, it holds this very state (it is then not rewritten).  Along
    every history this is the case (`C19_history_roundtrip`).  This holds for EVERY `load_model`
    setting of the resuming run (unset, a model-only directory, a full snapshot of another run
    with its own `opt.pt`): nothing of the initial model is applied over the resumed state. -/
theorem C19_roundtrip (ord : Name → List FName) (s : TrainState) (fs : FS) (hi : FsInv fs)
    (hsame : ∀ c, resume fs = .loaded c → c.elapsed.step = s.elapsed.step → c = s) :
    runAll? (saveOps ord s fs) fs ≠ none ∧
      resume (runAll (saveOps ord s fs) fs) = .loaded s ∧
      ∀ lm, resumeWith lm (runAll (saveOps ord s fs) fs) = .loaded s := by
  obtain ⟨st, h1, h2⟩ := save_complete ord s fs hi hsame
  have hr : resume (runAll (saveOps ord s fs) fs) = .loaded s := by
    rw [runAll_of_runAll? h1]; exact resume_of_new h2
  exact ⟨by rw [h1]; simp, hr, fun lm => resumeWith_loaded lm hr⟩

/-- the same for a hook call that saves (periodic, `SAVE_NOW`, end of run) -/
theorem C19_roundtrip_hook (t : Trigger) (ord : Name → List FName) (s : TrainState) (fs : FS)
    (hi : FsInv fs) (hs : hookSaves t s fs = true)
    (hsame : ∀ c, resume fs = .loaded c → c.elapsed.step = s.elapsed.step → c = s) :
    runAll? (hookOps t ord s fs) fs ≠ none ∧
      resume (runAll (hookOps t ord s fs) fs) = .loaded s ∧
      ∀ lm, resumeWith lm (runAll (hookOps t ord s fs) fs) = .loaded s := by
  obtain ⟨st, h1, h2⟩ := hook_complete t ord s fs hi hs hsame
  have hr : resume (runAll (hookOps t ord s fs) fs) = .loaded s := by
    rw [runAll_of_runAll? h1]; exact resume_of_new h2
  exact ⟨by rw [h1]; simp, hr, fun lm => resumeWith_loaded lm hr⟩

-- non-vacuity: first save into an empty directory; a later save over crash debris and an orphan;
-- a SAVE_NOW request
example : resume (runAll (saveOps ord0 sA []) []) = .loaded sA := by decide +kernel
example : resume fsDebris = .loaded sA ∧ (get fsDebris (.stepTmp 10)).isSome = true := by
  decide +kernel
example : resume (runAll (saveOps ord0 sB' fsOrphan) fsOrphan) = .loaded sB' :=
  (C19_roundtrip ord0 sB' fsOrphan fsInv_fsOrphan (by
    intro c hc he
    have h : resume fsOrphan = .loaded sA := by decide +kernel
    rw [h] at hc
    cases hc
    exact absurd he (by decide))).2.1
example : resumeWith (.snapshot [7] [8]) (runAll (saveOps ord0 sA []) []) = .loaded sA ∧
    resumeWith (.snapshot [7] [8]) [] = .warm [7] (some [8]) ∧
    resumeWith (.modelOnly [7]) [] = .warm [7] none ∧ resumeWith .unset [] = .fresh := by
  decide +kernel
example : hookSaves (.afterStep 4) sB (put fsA .saveNow .flag) = true := by decide +kernel

/-! ### interruption -/

/-- **C19_crash_consistent.** Kill the saving process after any number `k` of file-system
    operations of a hook call (periodic save, `SAVE_NOW`, end of run; first save, re-save of the
    same step, stale `step_N.tmp` / `latest.tmp` / orphan `step_N` of earlier crashes — all are
    run directories satisfying `FsInv`): a fresh run resumes what the directory designated before
    or the new state; never an error (partial snapshot), and never from scratch if it would not
    have before. -/
theorem C19_crash_consistent (t : Trigger) (ord : Name → List FName) (s : TrainState) (fs : FS)
    (hi : FsInv fs) (k : Nat) :
    (resume (runPrefix k (hookOps t ord s fs) fs) = resume fs ∨
      resume (runPrefix k (hookOps t ord s fs) fs) = .loaded s) ∧
    resume (runPrefix k (hookOps t ord s fs) fs) ≠ .error ∧
    (resume fs ≠ .fresh → resume (runPrefix k (hookOps t ord s fs) fs) ≠ .fresh) := by
  have h := hook_prefix_resume t ord s fs hi k
  have hold : resume fs ≠ .error := by
    rcases resume_of_live hi.live with h | ⟨c, h⟩ <;> rw [h] <;> simp
  refine ⟨h, ?_, ?_⟩
  · rcases h with h | h <;> rw [h]
    · exact hold
    · simp
  · intro hn
    rcases h with h | h <;> rw [h]
    · exact hn
    · simp

/-- … under EVERY `load_model` setting of the resuming run: the start is what it would have been
    before the call, or the new state; never an error; and once the directory designated a
    snapshot `c`, the run resumes `c` or `s` — never its `load_model`, never from scratch -/
theorem C19_crash_consistent_load_model (lm : LoadModel) (t : Trigger) (ord : Name → List FName)
    (s : TrainState) (fs : FS) (hi : FsInv fs) (k : Nat) :
    (resumeWith lm (runPrefix k (hookOps t ord s fs) fs) = resumeWith lm fs ∨
      resumeWith lm (runPrefix k (hookOps t ord s fs) fs) = .loaded s) ∧
    resumeWith lm (runPrefix k (hookOps t ord s fs) fs) ≠ .error ∧
    (∀ c, resume fs = .loaded c →
      resumeWith lm (runPrefix k (hookOps t ord s fs) fs) = .loaded c ∨
      resumeWith lm (runPrefix k (hookOps t ord s fs) fs) = .loaded s) := by
  obtain ⟨h, hne, _⟩ := C19_crash_consistent t ord s fs hi k
  refine ⟨?_, fun he => hne ((resumeWith_error_iff lm _).1 he), ?_⟩
  · rcases h with h | h
    · exact Or.inl (resumeWith_congr lm h)
    · exact Or.inr (resumeWith_loaded lm h)
  · intro c hc
    rcases h with h | h
    · exact Or.inl (resumeWith_loaded lm (h.trans hc))
    · exact Or.inr (resumeWith_loaded lm h)

/-- the same for the bare save -/
theorem C19_crash_consistent_save (ord : Name → List FName) (s : TrainState) (fs : FS)
    (hi : FsInv fs) (k : Nat) :
    (resume (runPrefix k (saveOps ord s fs) fs) = resume fs ∨
      resume (runPrefix k (saveOps ord s fs) fs) = .loaded s) ∧
    resume (runPrefix k (saveOps ord s fs) fs) ≠ .error ∧
    (resume fs ≠ .fresh → resume (runPrefix k (saveOps ord s fs) fs) ≠ .fresh) :=
  C19_crash_consistent .afterRun ord s fs hi k

/-- what `latest` designates is a COMPLETE snapshot directory after every crash prefix
    (all five files, including `config.yaml`, which `load_state` does not read) -/
theorem C19_never_partial (t : Trigger) (ord : Name → List FName) (s : TrainState) (fs : FS)
    (hi : FsInv fs) (k : Nat) (nd : Node)
    (h : get (runPrefix k (hookOps t ord s fs) fs) .latest = some nd) :
    ∃ m es c, nd = .link (.step m) ∧
      get (runPrefix k (hookOps t ord s fs) fs) (.step m) = some (.dir es) ∧ Snap es c :=
  let ⟨m, es, c, h1, h2, h3, _⟩ := (hook_prefix_inv t ord s fs hi k).live nd h
  ⟨m, es, c, h1, h2, h3⟩

-- non-vacuity: both outcomes occur, and the old one is a real snapshot
example : resume (runPrefix 14 (saveOps ord0 sB fsA) fsA) = .loaded sA := by decide +kernel
example : (saveOps ord0 sB fsA).length = 15 ∧
    resume (runPrefix 15 (saveOps ord0 sB fsA) fsA) = .loaded sB := by decide +kernel
example : (saveOps ord0 sB fsDebris).length = 19 ∧
    resume (runPrefix 18 (saveOps ord0 sB fsDebris) fsDebris) = .loaded sA := by decide +kernel

/-! ### the invariant along histories -/

/-- **C19_inv.** `FsInv` (`latest` is a symlink to a complete snapshot directory `step_M` whose
    counter is `M`; every name has its kind) holds in the empty directory, is preserved by every
    crash prefix of every hook call and re-established by a completed one; together with the
    trainer-side invariant (`MemInv`) it is preserved by every event — so it holds along every
    history of starts, training steps, `SAVE_NOW` requests, saves, crashes and kills. -/
theorem C19_inv (init : TrainState) (lm : LoadModel) (h : List Event) (sys : Sys)
    (hi : SysInv sys) : SysInv (runHistory init lm h sys) :=
  history_inv init lm h sys hi

theorem C19_inv_prefix (t : Trigger) (ord : Name → List FName) (s : TrainState) (fs : FS)
    (hi : FsInv fs) (k : Nat) : FsInv (runPrefix k (hookOps t ord s fs) fs) :=
  hook_prefix_inv t ord s fs hi k

theorem C19_inv_init : SysInv ⟨[], none⟩ := sysInv_empty

/-- after ANY history from an empty run directory: resuming never fails on a partial snapshot -/
theorem C19_history_never_error (init : TrainState) (lm : LoadModel) (h : List Event) :
    resume (runHistory init lm h ⟨[], none⟩).fs ≠ .error ∧
      ∀ lm', resumeWith lm' (runHistory init lm h ⟨[], none⟩).fs ≠ .error := by
  have hi := (C19_inv init lm h _ C19_inv_init).fs
  have hr : resume (runHistory init lm h ⟨[], none⟩).fs ≠ .error := by
    rcases resume_of_live hi.live with h | ⟨c, h⟩ <;> rw [h] <;> simp
  exact ⟨hr, fun lm' he => hr ((resumeWith_error_iff lm' _).1 he)⟩

/-- once the run directory designates a snapshot (some save has completed), no continuation of
    the history — saves, crashes at any point, restarts — makes a fresh run start from scratch
    or from its `load_model`: under every `load_model` setting it resumes a saved state -/
theorem C19_history_never_fresh_again (init : TrainState) (lm : LoadModel) (h₁ h₂ : List Event)
    (hsaved : resume (runHistory init lm h₁ ⟨[], none⟩).fs ≠ .fresh) :
    resume (runHistory init lm h₂ (runHistory init lm h₁ ⟨[], none⟩)).fs ≠ .fresh ∧
      ∃ c, ∀ lm', resumeWith lm'
        (runHistory init lm h₂ (runHistory init lm h₁ ⟨[], none⟩)).fs = .loaded c := by
  have hi₁ := C19_inv init lm h₁ _ C19_inv_init
  have hnf := history_not_fresh init lm h₂ _ hi₁ hsaved
  have hi₂ := (C19_inv init lm h₂ _ hi₁).fs
  refine ⟨hnf, ?_⟩
  rcases resume_of_live hi₂.live with h | ⟨c, h⟩
  · exact absurd h hnf
  · exact ⟨c, fun lm' => resumeWith_loaded lm' h⟩

/-- after ANY history, the state the running trainer holds is restored exactly by an
    uninterrupted saving hook call followed by a fresh start (the hypothesis `hsame` of
    `C19_roundtrip` is discharged by the history invariant) -/
theorem C19_history_roundtrip (init : TrainState) (lm : LoadModel) (h : List Event) (t : Trigger)
    (ord : Name → List FName) (s : TrainState)
    (hmem : (runHistory init lm h ⟨[], none⟩).mem = some s)
    (hs : hookSaves t s (runHistory init lm h ⟨[], none⟩).fs = true) :
    ((Event.start).apply init lm
      ((Event.hook t ord).apply init lm (runHistory init lm h ⟨[], none⟩))).mem = some s := by
  have hi := C19_inv init lm h _ C19_inv_init
  have hrt := (C19_roundtrip_hook t ord s _ hi.fs hs
    (fun c hc he => (hi.mem s hmem c hc).2 he)).2.1
  simp only [Event.apply, hmem, hrt]

-- non-vacuity: a history with a crash inside a save, a restart, training, a SAVE_NOW request
def demoHistory : List Event :=
  [.start, .train [1] [2] [3] 2 8 2, .hook (.afterStep 1) ord0,
   .train [4] [5] [6] 2 16 4, .crash (.afterStep 1) ord0 7, .start,
   .train [7] [8] [9] 2 17 4, .touch, .hook (.afterStep 5) ord0, .kill, .start]

example : (runHistory ⟨[0], [0], [], ⟨0, 0, 0⟩⟩ (.snapshot [70] [71]) demoHistory ⟨[], none⟩).mem
    = some ⟨[7], [8], [[3], [9]], ⟨2, 17, 4⟩⟩ := by decide +kernel

/-! ### mode switch and replay window -/

/-- **C19_modes.** Switching to serving precision and back restores the training parameters bit
    for bit, whatever the casts do (`serve_mode` keeps a copy, `train_mode` loads it back). -/
theorem C19_modes (cast castBack : Nat → Nat) (r : Run) :
    (trainMode castBack (serveMode cast r)).model = r.model :=
  modes_roundtrip cast castBack r

/-- … for any number of round trips -/
theorem C19_modes_iter (cast castBack : Nat → Nat) (r : Run) (n : Nat) :
    (Nat.repeat (fun r => trainMode castBack (serveMode cast r)) n r).model = r.model := by
  induction n with
  | zero => rfl
  | succ n ih =>
    simp only [Nat.repeat]
    rw [C19_modes, ih]

/-- **C19_startup.** Resume and the mode switch compose: the start-up sequence of a run —
    `load_or_init_model()` on a directory whose last save completed, `serve_mode()`, and the first
    `train_mode()` of a training step — trains on exactly the saved parameters, whatever the
    serving precision does to them and whatever `load_model` is configured. -/
theorem C19_startup (cast castBack : Nat → Nat) (ord : Name → List FName) (s : TrainState) (fs : FS)
    (hi : FsInv fs)
    (hsame : ∀ c, resume fs = .loaded c → c.elapsed.step = s.elapsed.step → c = s) (lm : LoadModel) :
    resumeWith lm (runAll (saveOps ord s fs) fs) = .loaded s ∧
    ∀ tp, (trainMode castBack (serveMode cast ⟨s.params, tp⟩)).model = s.params :=
  ⟨(C19_roundtrip ord s fs hi hsame).2.2 lm, fun tp => C19_modes cast castBack ⟨s.params, tp⟩⟩

/-- … and the order of the calls matters: taking the master copy a second time, from the model
    already cast to serving precision (`serve_mode(); serve_mode(); train_mode()`), hands training
    the rounded parameters — the witness rounds to even numbers. -/
theorem C19_double_serve_witness :
    ∃ (cast castBack : Nat → Nat) (r : Run),
      (trainMode castBack (serveMode cast (serveMode cast r))).model ≠ r.model :=
  ⟨(fun x => x / 2 * 2), id, ⟨[5, 7], []⟩, by decide⟩

example : (trainMode (· * 2) (serveMode (· / 2) ⟨[5, 7], []⟩)).model = [5, 7] ∧
    (serveMode (· / 2) ⟨[5, 7], []⟩).model = [2, 3] := by decide

/-- **C19_window.** After any sequence of pushes the replay buffer holds exactly the most recent
    `k` batches, in order (fewer only while fewer have been pushed). -/
theorem C19_window {β : Type} (k : Nat) (bs : List β) :
    pushes k [] bs = bs.drop (bs.length - k) := by
  simpa using window_general k bs [] (Nat.zero_le _)

/-- … also when the run starts from a restored buffer that fits the window -/
theorem C19_window_resumed {β : Type} (k : Nat) (buf bs : List β) (h : buf.length ≤ k) :
    pushes k buf bs = (buf ++ bs).drop ((buf ++ bs).length - k) :=
  window_general k bs buf h

theorem C19_window_length {β : Type} (k : Nat) (bs : List β) :
    (pushes k [] bs).length = min k bs.length := by
  rw [C19_window]; simp; omega

example : pushes 3 [] [1, 2, 3, 4, 5] = [3, 4, 5] ∧ pushes 3 [] [1, 2] = [1, 2] := by decide

/-! ### the failing histories of the pinned protocol and of the first draft -/

/-- **C19_gap_witness (F11).** Pinned protocol: a completed snapshot of `sA` exists and is
    designated by `latest`; the save of `sB` is killed after `unlink latest` (12 operations) and
    before `symlink`: a fresh run starts from scratch, silently. -/
theorem C19_gap_witness :
    FsInv fsA ∧ resume fsA = .loaded sA ∧ (saveOpsPinned sB).length = 13 ∧
      resume (runPrefix 12 (saveOpsPinned sB) fsA) = .fresh :=
  ⟨fsInv_fsA, by decide +kernel, by decide +kernel, by decide +kernel⟩

/-- **C19_inplace_witness (F12).** Pinned protocol: the end-of-run save of the step that the
    periodic save has just published rewrites the live snapshot in place; killed inside
    `model.pt` (2 operations), `latest` designates a directory with a partial file and resuming
    fails. -/
theorem C19_inplace_witness :
    FsInv fsA ∧ resume fsA = .loaded sA ∧
      get (runPrefix 2 (saveOpsPinned sA) fsA) .latest = some (.link (.step 5)) ∧
      (match get (runPrefix 2 (saveOpsPinned sA) fsA) (.step 5) with
        | some (.dir es) => get es .model
        | _ => none) = some .part ∧
      resume (runPrefix 2 (saveOpsPinned sA) fsA) = .error :=
  ⟨fsInv_fsA, by decide +kernel, by decide +kernel,
    by decide +kernel, by decide +kernel⟩

/-- **C19_orphan_witness.** First draft of the repair ("write nothing if `step_N` exists"): a
    save of `sB` killed after the rename and before the `latest` switch leaves an orphan
    `step_000010`; the run resumes `sA`, trains to another state `sB'` with the same counter;
    its completed save publishes the ORPHAN, and a fresh run silently resumes the wrong state. -/
theorem C19_orphan_witness :
    FsInv fsOrphan ∧ resume fsOrphan = .loaded sA ∧
      runPrefix 14 (saveOpsDrafted ord0 sB fsA) fsA = fsOrphan ∧
      runAll? (saveOpsDrafted ord0 sB' fsOrphan) fsOrphan ≠ none ∧
      resume (runAll (saveOpsDrafted ord0 sB' fsOrphan) fsOrphan) = .loaded sB ∧
      sB ≠ sB' :=
  ⟨fsInv_fsOrphan, by decide +kernel, by decide +kernel, by decide +kernel, by decide +kernel,
    by decide⟩

end Tak.C19

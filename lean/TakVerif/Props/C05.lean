/-
  C05 — positions are immutable values.

  "Applying a move — accepted or refused, including a slide refused part-way along its
  path — never changes the position it was applied to, nor any earlier position of the
  game, nor any sibling position that shares stacks with it.  A position stays equal to a
  snapshot taken when it was created for as long as anyone holds it."

  Modelled on a heap of Python list objects (`Model/Heap.lean`).  The model's primitive
  `write` can overwrite ANY cell; that `hMove` (and the other producers of positions) only
  ever write cells they allocated in the same call is what is proved here, not assumed
  (`hMovePlaceInPlace`, the same code with one in-place `append`, fails every theorem
  below: see the last examples).
-/
import TakVerif.Lemmas.HeapHistory

namespace Tak.C05
open Tak Tak.HeapModel

/-- **Frame.** `Position.move` — accepted, refused, or refused part-way through a slide —
    leaves every list object that existed before the call exactly as it was (and the heap
    only grows).  No hypothesis at all: any heap, any position record (well-formed or not),
    any move a caller can construct. -/
theorem C05_frame (h : Heap) (hp : HPos) (m : Move) (r : Ref) (hr : r < h.length) :
    (hMove h hp m).1[r]? = h[r]? :=
  hMove_frame h hp m r hr

/-- the heap never shrinks -/
theorem C05_grows (h : Heap) (hp : HPos) (m : Move) : h.length ≤ (hMove h hp m).1.length :=
  (hMove_frame h hp m).length_le

/-- **Refinement.** The value denoted by the outcome of the heap-level `move` is exactly
    what the value model `Impl.move` (the subject of C01..C04) computes from the value
    denoted by the argument — including which error is raised. -/
theorem C05_refines (h : Heap) (hp : HPos) (m : Move) (w : HWF h hp) :
    denR (hMove h hp m) = Impl.move (den h hp) m :=
  (hMove_spec w m).2

/-- an accepted move yields a well-formed heap position (so it can be moved from again) -/
theorem C05_result_wf (h : Heap) (hp hp' : HPos) (m : Move) (w : HWF h hp)
    (hok : (hMove h hp m).2 = .ok hp') : HWF (hMove h hp m).1 hp' :=
  (hMove_spec w m).1 hp' hok

/-- the position moved from denotes afterwards what it denoted before — whatever happened -/
theorem C05_source_unchanged (h : Heap) (hp : HPos) (m : Move) (w : HWF h hp) :
    den (hMove h hp m).1 hp = den h hp :=
  den_frame w (hMove_frame h hp m)

/-- … and so does every other well-formed position in the heap (ancestors, siblings that
    share stack lists with it, unrelated games) -/
theorem C05_others_unchanged (h : Heap) (hp other : HPos) (m : Move) (w : HWF h other) :
    den (hMove h hp m).1 other = den h other :=
  den_frame w (hMove_frame h hp m)

/-- **History, heap level.** Along any sequence of operations — move attempts against any
    retained position, in any order, interleaved with parsing, transforming, decoding and
    adopting caller-built boards — no list object that exists at some point is ever different
    later. -/
theorem C05_history_frame (w : World) (hw : w.WF) (ops1 ops2 : List Op) (r : Ref)
    (hr : r < (run w ops1).heap.length) :
    (run w (ops1 ++ ops2)).heap[r]? = (run w ops1).heap[r]? := by
  rw [run_append]
  exact (run_extends (run_extends hw ops1).wf ops2).frame r hr

/-- **History.** Every position retained at any point of any history is still retained
    under the same number, and denotes after all further operations the same value it
    denoted then (in particular: the value it denoted when it was created). -/
theorem C05_history (w : World) (hw : w.WF) (ops1 ops2 : List Op) (k : Nat) (hp : HPos)
    (hk : (run w ops1).kept[k]? = some hp) :
    (run w (ops1 ++ ops2)).kept[k]? = some hp ∧
    den (run w (ops1 ++ ops2)).heap hp = den (run w ops1).heap hp := by
  rw [run_append]
  have e1 := run_extends hw ops1
  have e2 := run_extends e1.wf ops2
  obtain ⟨t, ht⟩ := e2.kept
  have hlt : k < (run w ops1).kept.length := by
    rcases Nat.lt_or_ge k (run w ops1).kept.length with h | h
    · exact h
    · rw [List.getElem?_eq_none_iff.mpr h] at hk; cases hk
  constructor
  · rw [ht, List.getElem?_append_left hlt, hk]
  · exact den_frame (e1.wf hp (List.mem_of_getElem? hk)) e2.frame

/-- the same, for a whole session started from nothing -/
theorem C05_history_from_empty (ops1 ops2 : List Op) (k : Nat) (hp : HPos)
    (hk : (run World.empty ops1).kept[k]? = some hp) :
    (run World.empty (ops1 ++ ops2)).kept[k]? = some hp ∧
    den (run World.empty (ops1 ++ ops2)).heap hp = den (run World.empty ops1).heap hp :=
  C05_history World.empty empty_wf ops1 ops2 k hp hk

/-- every position a history ever retains is well-formed, hence `C05_refines` applies to
    every move attempted in the history: the new position's value is `Impl.move` of the
    value its parent had WHEN THE PARENT WAS CREATED -/
theorem C05_history_wf (w : World) (hw : w.WF) (ops : List Op) : (run w ops).WF :=
  (run_extends hw ops).wf

/-- **Aliasing.** A board produced by `parse_tps` (whose empty squares of one `xN` run are
    ONE shared list object) is a well-formed heap position, and a move attempt on it — like
    on any other — changes no existing list object and computes the value `Impl.move`
    prescribes. -/
theorem C05_aliasing_safe (h : Heap) (rows : List (List RowItem)) (ply : Int) (hp : HPos)
    (hok : (hParseTPS h rows ply).2 = .ok hp) (m : Move) :
    HWF (hParseTPS h rows ply).1 hp ∧
    (∀ r, r < (hParseTPS h rows ply).1.length →
      (hMove (hParseTPS h rows ply).1 hp m).1[r]? = (hParseTPS h rows ply).1[r]?) ∧
    denR (hMove (hParseTPS h rows ply).1 hp m) = Impl.move (den (hParseTPS h rows ply).1 hp) m := by
  have w := (hParseTPS_spec h rows ply).2 hp hok
  exact ⟨w, fun r hr => hMove_frame _ _ _ r hr, (hMove_spec w m).2⟩

/-- parsing, transforming, decoding and adopting also only grow the heap -/
theorem C05_sources_frame (h : Heap) :
    (∀ rows ply, Frame h (hParseTPS h rows ply).1) ∧
    (∀ sc toks, Frame h (hDecode h sc toks).1) ∧
    (∀ hp table, HWF h hp → Frame h (hTransform h hp table).1) ∧
    (∀ kept sc srcs, (∀ hp ∈ kept, HWF h hp) → Frame h (hAdopt h kept sc srcs).1) :=
  ⟨fun rows ply => (hParseTPS_spec h rows ply).1, fun sc toks => (hDecode_spec h sc toks).1,
   fun _ table w => (hTransform_spec w table).1, fun _ sc srcs hk => (hAdopt_spec hk sc srcs).1⟩

/-! ## Non-vacuity -/

section Examples

private def wF : Piece := ⟨.white, .flat⟩
private def bF : Piece := ⟨.black, .flat⟩
private def bS : Piece := ⟨.black, .standing⟩
private def bC : Piece := ⟨.black, .cap⟩

/-- 3×3, ply 4 (white to move): a1 = white stack of three, b1 = black flat, c1 = black
    wall; every other square refers to ONE shared empty list (cell 3), as after `parse_tps`.
    Cell 4 is the outer list. -/
private def h0 : Heap :=
  [.stack [wF, bF, wF], .stack [bF], .stack [bS], .stack [], .outer [0, 1, 2, 3, 3, 3, 3, 3, 3]]
private def p0 : HPos := ⟨3, 7, 0, 8, 0, 4, 4⟩

example : HWF h0 p0 := hwfb_sound (by decide)

/-- a slide `a1>` dropping 1,1: the first step (onto b1) is assigned into the new board,
    the second step hits the wall on c1 and the move is REFUSED part-way.  Two list objects
    and a new outer list were allocated (garbage); nothing that existed changed. -/
private def mRefused : Move := ⟨0, 0, .right, some [1, 1]⟩
example : denR (hMove h0 p0 mRefused) = .error .illegal := by rfl
example : (hMove h0 p0 mRefused).1.length = h0.length + 3 := by decide
example : (hMove h0 p0 mRefused).1.take h0.length = h0 := by decide
example : den (hMove h0 p0 mRefused).1 p0 = den h0 p0 := C05_source_unchanged h0 p0 mRefused (hwfb_sound (by decide))

/-- an accepted slide `a1>` dropping 2 onto b1: a new position sharing seven of its nine
    stack lists with its parent; parent unchanged, child as `Impl.move` says -/
private def mOK : Move := ⟨0, 0, .right, some [2]⟩
example : (hMove h0 p0 mOK).2.toOption = some ⟨3, 7, 0, 8, 0, 5, 5⟩ ∧
    refsAt (hMove h0 p0 mOK).1 5 = [6, 7, 2, 3, 3, 3, 3, 3, 3] := by decide
example : denR (hMove h0 p0 mOK) = Impl.move (den h0 p0) mOK := C05_refines h0 p0 mOK (hwfb_sound (by decide))
example : (Impl.move (den h0 p0) mOK).toOption.map (·.board.take 3) = some [[wF], [wF, bF, bF], [bS]] := by decide

/-- placing on one of the aliased empty squares: the other empty squares of the parent (and
    of the child) stay empty, because the placement installs a NEW list -/
private def mPlace : Move := ⟨1, 1, .placeFlat, none⟩
example : (denR (hMove h0 p0 mPlace)).toOption.map (·.board.drop 3) = some [[], [wF], [], [], [], []] := by decide
example : (den (hMove h0 p0 mPlace).1 p0).board.drop 3 = [[], [], [], [], [], []] := by decide

/-- `parse_row` of `x3`: three references to ONE list object -/
example : (hParseRow [] [.empties 3]).1 = [.outer [1, 1, 1], .stack []] := by decide

/-- `parse_tps` of `x3/x3/12S,x2 1 3`: per row one shared empty list; the local list `stack`
    (cell 2, built by `append` and `stack[-1] = …`) is garbage, cell 3 is its reversed copy -/
private def rows0 : List (List RowItem) :=
  [[.empties 3], [.empties 3], [.pieces [.one, .two, .markS], .empties 2]]
example : (hParseTPS [] rows0 4).1 =
    [.outer [3, 4, 4, 6, 6, 6, 8, 8, 8], .outer [3, 4, 4], .stack [wF, bS], .stack [bS, wF],
     .stack [], .outer [6, 6, 6], .stack [], .outer [8, 8, 8], .stack []] := by decide
example : (denR (hParseTPS [] rows0 4)).toOption.map (·.board) =
    some [[bS, wF], [], [], [], [], [], [], [], []] := by decide

/-- `transform_position` (here: mirror left-right on 3×3) shares the source's stack lists -/
private def flipTable : List (Nat × Nat) :=
  [(2, 0), (1, 1), (0, 2), (5, 3), (4, 4), (3, 5), (8, 6), (7, 7), (6, 8)]
example : (hTransform h0 p0 flipTable).2.toOption = some { p0 with board := 5 } ∧
    refsAt (hTransform h0 p0 flipTable).1 5 = [2, 1, 0, 3, 3, 3, 3, 3, 3] ∧
    (hTransform h0 p0 flipTable).1.take h0.length = h0 := by decide

/-- `decode`: the last square's list is appended to in place before it is published -/
example : (hDecode [] ⟨2, 0, 0, 0, 0, 2, 0⟩ [.top wF, .under .black, .empty, .empty, .top bC, .under .white]).1 =
    [.outer [1, 2, 3, 4], .stack [wF, bF], .stack [], .stack [], .stack [bC, wF]] := by decide

/-- a history: parse; place on b1; place a wall on b1 from the PARENT again (sibling); slide
    a1> 1,1 from the first child; from that grandchild a slide b1< 1,1 that drops one piece
    on a1 and then runs off the board (REFUSED part-way: three cells of garbage, nothing
    retained); transform the root.  Five retained positions, 21 cells; position 0 denotes at
    the end what it denoted after the first operation. -/
private def ops0 : List Op :=
  [.parse rows0 4, .move 0 ⟨1, 0, .placeFlat, none⟩, .move 0 ⟨1, 0, .placeStanding, none⟩,
   .move 1 ⟨0, 0, .right, some [1, 1]⟩, .move 3 ⟨1, 0, .left, some [1, 1]⟩, .transform 0 flipTable]
example : (run World.empty ops0).kept.length = 5 := by decide
example : (run World.empty (ops0.take 4)).heap.length = 17 ∧ (run World.empty (ops0.take 5)).heap.length = 20 ∧
    (run World.empty (ops0.take 5)).kept.length = 4 := by decide
example : den (run World.empty ops0).heap ⟨3, 9, 0, 9, 0, 4, 0⟩ =
    den (run World.empty (ops0.take 1)).heap ⟨3, 9, 0, 9, 0, 4, 0⟩ := by
  have hk : (run World.empty (ops0.take 1)).kept[0]? = some ⟨3, 9, 0, 9, 0, 4, 0⟩ := by decide
  have := C05_history_from_empty (ops0.take 1) (ops0.drop 1) 0 _ hk
  rw [List.take_append_drop] at this
  exact this.2

/-! ### the theorems are not true of arbitrary code written with the same primitives -/

/-- `_move_place` with an in-place `append` on the (aliased) empty list: the frame property
    fails … -/
example : ∃ r, r < h0.length ∧ (hMovePlaceInPlace h0 p0 mPlace).1[r]? ≠ h0[r]? := ⟨3, by decide, by decide⟩

/-- … and the PARENT position now shows a stone on every formerly empty square -/
example : (den (hMovePlaceInPlace h0 p0 mPlace).1 p0).board.drop 3 =
    [[wF], [wF], [wF], [wF], [wF], [wF]] := by decide

end Examples

end Tak.C05

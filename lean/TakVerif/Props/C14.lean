/-
  C14 — PTN move and game notation round-trips.

  Model: `Tak.PTN.formatMove` / `parseMove` / `parse` (Model/PTN.lean, mirrors python/tak/ptn/ptn.py with
  the repairs F6/F7 of design/planned_repairs.diff).  Spec: `Tak.Spec.ptnDenote`, `Tak.Spec.Loose`
  (Spec/PTNGrammar.lean, from the PTN standard).  `Move8`, `TagOK`, `AtomOK`, `ItemOK`, `ItemsOK`,
  `movesOf`, `wordMoves` are defined in Lemmas/PTNMove.lean, Lemmas/PTNGame.lean, Lemmas/PTNBody.lean.

  Every theorem is at full strength: all strings (`List Char`, any length, any Unicode scalar), every
  move of `Move8` (which contains every move of every board size 3..8), every rendering.
-/
import TakVerif.Lemmas.PTNDenote
import TakVerif.Lemmas.PTNStandard
import TakVerif.Lemmas.PTNBody

namespace Tak.C14
open Tak Tak.PTN

/-- Formatting any move of the universe and parsing the text back yields the same move. -/
theorem C14_parse_format (m : Move) (h : Move8 m) : parseMove (formatMove m) = .ok m :=
  parse_format m h

example : Move8 ⟨0, 0, .up, some [1, 1, 1]⟩ ∧ Move8 ⟨7, 6, .placeCap, none⟩ ∧ Move8 ⟨2, 1, .right, some [1, 2]⟩ := by
  decide
example : parseMove (formatMove ⟨2, 1, .right, some [1, 2]⟩) = .ok ⟨2, 1, .right, some [1, 2]⟩ := by decide
example : formatMove ⟨0, 0, .up, some [1, 1, 1]⟩ = "3a1+111".toList := by decide

/-- Whatever text is accepted, the move lies in the universe. -/
theorem C14_accepts_move8 (t : List Char) (m : Move) (h : parseMove t = .ok m) : Move8 m := by
  rcases parseMove_cases t with h' | ⟨m', h', hm'⟩
  · rw [h'] at h; cases h
  · rw [h'] at h; cases h; exact hm'

example : parseMove "Fh7".toList = .ok ⟨7, 6, .placeFlat, none⟩ := by decide
/-- F6: on the pinned tree this text was accepted as drops (8,8) -/
example : parseMove "a1>88".toList = .error .badMove := by decide

/-- Parsing any accepted text, formatting and parsing again is stable — for EVERY string. -/
theorem C14_stable (t : List Char) (m : Move) (h : parseMove t = .ok m) :
    parseMove (formatMove m) = .ok m :=
  C14_parse_format m (C14_accepts_move8 t m h)

/-- lenient text: accepted as a flat placement, written back as `h7`, which parses to the same move -/
example : parseMove "Fh7".toList = .ok ⟨7, 6, .placeFlat, none⟩ ∧
    formatMove ⟨7, 6, .placeFlat, none⟩ = "h7".toList ∧
    parseMove "h7".toList = .ok ⟨7, 6, .placeFlat, none⟩ := by decide
example : parseMove "a1>44".toList = .ok ⟨0, 0, .right, some [4, 4]⟩ ∧
    formatMove ⟨0, 0, .right, some [4, 4]⟩ = "8a1>44".toList := by decide

/-- Standard-form text is accepted, and the parsed square, stone kind, direction and drop counts are
    the ones the PTN standard assigns. -/
theorem C14_denotes (t : List Char) (d : Spec.PTNDen) (h : Spec.ptnDenote t = some d) :
    ∃ m, parseMove t = .ok m ∧ Spec.DenotesMove d m :=
  denotes t d h

example : Spec.ptnDenote "3c2>12".toList = some (.slide 2 1 1 0 3 [1, 2]) := by decide
example : Spec.ptnDenote "Sa1".toList = some (.place 0 0 .standing) := by decide
example : Spec.ptnDenote "a1".toList = some (.place 0 0 .flat) := by decide
example : Spec.ptnDenote "c2>".toList = some (.slide 2 1 1 0 1 [1]) := by decide
example : Spec.ptnDenote "3c2>".toList = some (.slide 2 1 1 0 3 [3]) := by decide
example : Spec.ptnDenote "a3+".toList = some (.slide 0 2 0 1 1 [1]) := by decide
example : Spec.ptnDenote "2c3-2".toList = some (.slide 2 2 0 (-1) 2 [2]) := by decide
example : Spec.ptnDenote "5d4-22".toList = none := by decide
example : Spec.DenotesMove (.slide 2 1 1 0 3 [1, 2]) ⟨2, 1, .right, some [1, 2]⟩ := by decide

/-- What `format_move` writes is standard form, and by the standard it denotes the move it was given
    (square, kind or direction, drops). -/
theorem C14_format_denotes (m : Move) (h : Move8 m) :
    ∃ d, Spec.ptnDenote (formatMove m) = some d ∧ Spec.DenotesMove d m :=
  ⟨denOf m, format_standard m h⟩

example : Spec.ptnDenote (formatMove ⟨2, 1, .right, some [1, 2]⟩) = some (.slide 2 1 1 0 3 [1, 2]) := by decide

/-- Text that is not a PTN move — not even in the lenient language (standard form, plus a stone letter
    before a movement or after a placement, plus drops without a count) — is not accepted. -/
theorem C14_refuse (t : List Char) (h : ¬ Spec.Loose t) : ∀ m, parseMove t ≠ .ok m :=
  fun m hm => h (accepted_loose t m hm)

/-- The accepted language is exactly the lenient language: `Spec.Loose` is decided by the model. -/
theorem C14_accepted_iff_loose (t : List Char) : (∃ m, parseMove t = .ok m) ↔ Spec.Loose t :=
  ⟨fun ⟨m, hm⟩ => accepted_loose t m hm, loose_accepted t⟩

/-- a lenient form (stone letter on a movement): inside `Loose`, so it may be — and is — accepted -/
example : Spec.Loose "Ca1>".toList := (C14_accepted_iff_loose _).1 ⟨_, (by decide : parseMove "Ca1>".toList = .ok ⟨0, 0, .right, some [1]⟩)⟩

example : parseMove "6a1".toList = .error .badMove ∧ parseMove "14c4>".toList = .error .badMove ∧
    parseMove "a11".toList = .error .badMove ∧ parseMove "z3".toList = .error .badMove ∧
    parseMove "6a1>2222".toList = .error .badMove ∧ parseMove "".toList = .error .badMove ∧
    parseMove "5d4-22".toList = .error .badMove ∧ parseMove "a1\n".toList = .error .badMove := by decide

/-- `parse_move` never crashes: every string is accepted or refused with `BadMove`
    (the `KeyError`/`TypeError` branches of the model are unreachable). -/
theorem C14_no_crash (t : List Char) : (∃ m, parseMove t = .ok m) ∨ parseMove t = .error .badMove := by
  rcases parseMove_cases t with h | ⟨m, h, _⟩
  · exact Or.inr h
  · exact Or.inl ⟨m, h⟩

/-- Parsing a rendered PTN game returns its tags and exactly its moves in order, whatever comments
    (possibly empty, multi-line, holding `{`, moves, anything but `}`), white space of any `\s` kind,
    move numbers, `'!?` annotations, `--` and result markers surround them. -/
theorem C14_game (tags : List (List Char × List Char)) (lead : List GapAtom)
    (items : List (Item × List GapAtom))
    (ht : ∀ kv ∈ tags, TagOK kv) (hl : ∀ a ∈ lead, AtomOK a) (hi : ItemsOK items) :
    parse (render tags lead items) = .ok ⟨tags, movesOf items⟩ :=
  game tags lead items ht hl hi

/-- the renderer written out on a small decorated game, F7 inputs included (`{}`, `[Event ""]`) -/
example :
    render [("Event".toList, []), ("Size".toList, ['5'])] [.comment []]
      [(.number ['1'], [.ws ' ']), (.move "a3".toList [], [.ws ' ']), (.move "Cc5".toList ['?'], [.comment "x\ny".toList]),
       (.dashes, [.ws '\n']), (.move "2c3-2".toList ['!'], [.ws ' ']), (.result 1 0, [])]
      = "[Event \"\"]\n[Size \"5\"]\n\n{}1. a3 Cc5?{x\ny}--\n2c3-2! R-0".toList := by decide

example :
    parse "[Event \"\"]\n[Size \"5\"]\n\n{}1. a3 Cc5?{x\ny}--\n2c3-2! R-0".toList
      = .ok ⟨[("Event".toList, []), ("Size".toList, ['5'])],
             [⟨0, 2, .placeFlat, none⟩, ⟨2, 4, .placeCap, none⟩, ⟨2, 2, .down, some [2]⟩]⟩ := by
  decide +kernel

/-- the hypotheses of `C14_game` hold for such a script (tag with empty value, move number, annotated
    move, empty comment, result without trailing white space) -/
example :
    parse (render [("Event".toList, []), ("Size".toList, ['5'])] [.ws '\n']
        [(.number ['1'], [.ws ' ']), (.move "a3".toList ['!'], [.comment []]), (.result 1 0, [])])
      = .ok ⟨[("Event".toList, []), ("Size".toList, ['5'])],
             movesOf [(.number ['1'], [.ws ' ']), (.move "a3".toList ['!'], [.comment []]), (.result 1 0, [])]⟩ := by
  apply C14_game
  · intro kv hkv
    simp only [List.mem_cons, List.not_mem_nil, or_false] at hkv
    rcases hkv with rfl | rfl
    · exact ⟨by decide, by decide +kernel, by decide⟩
    · exact ⟨by decide, by decide +kernel, by decide⟩
  · intro a ha
    simp only [List.mem_cons, List.not_mem_nil, or_false] at ha
    subst ha
    show pySpace '\n' = true
    decide
  · refine ⟨⟨by decide, by decide⟩, ?_, by decide, ⟨⟨_, (by decide : parseMove "a3".toList = .ok ⟨0, 2, .placeFlat, none⟩)⟩, by decide⟩, ?_, by decide,
      ⟨by decide, by decide⟩, by simp⟩
    · intro a ha
      simp only [List.mem_cons, List.not_mem_nil, or_false] at ha
      subst ha
      show pySpace ' ' = true
      decide
    · intro a ha
      simp only [List.mem_cons, List.not_mem_nil, or_false] at ha
      subst ha
      show '}' ∉ ([] : List Char)
      simp

/-- the moves of a body whose moves are written by `formatMove` are those moves -/
theorem C14_game_formatted (m : Move) (a : List Char) (g : List GapAtom) (h : Move8 m)
    (rest : List (Item × List GapAtom)) :
    movesOf ((.move (formatMove m) a, g) :: rest) = m :: movesOf rest := by
  simp [movesOf, C14_parse_format m h]

/-- Any text at all: `PTN.parse` returns a game, or refuses with `BadMove`; the only other outcome is
    the `ValueError` of a text without a blank line (reported, see the C14 notes). -/
theorem C14_game_no_crash (t : List Char) :
    (∃ g, parse t = .ok g) ∨ parse t = .error .badMove ∨
      (parse t = .error (.crash "ValueError") ∧ splitBlank t = none) :=
  parse_cases t

/-- Any text with a blank line: if it is accepted, the moves returned are exactly the moves of its
    words in order, and every word is decoration or an (annotated) move text — a word that is not a
    PTN move makes the whole text refused. -/
theorem C14_game_refuse (t head tail : List Char) (g : Game) (hs : splitBlank t = some (head, tail))
    (h : parse t = .ok g) :
    g.moves = wordMoves (splitWs (stripComments false tail)) ∧
    ∀ w ∈ splitWs (stripComments false tail), skipToken w = true ∨ ∃ m, parseMove (stripAnnot w) = .ok m :=
  (parse_ok t head tail g hs h).2

example : parse "\n\n1. a1 b9 c3".toList = .error .badMove := by decide +kernel

end Tak.C14

/-
  C04 — every reachable position is physically consistent.

  Along every sequence of accepted moves from the initial position of ANY configuration
  (any board size ≥ 1, any non-negative piece / capstone counts, any game length), with
  refused attempts interleaved anywhere:
    * for each colour, stones on the board + stone reserve = configured stone count, and
      likewise capstones; reserves are never negative; only the top piece of a stack is ever
      a wall or a capstone                                         (`Inv`, Spec/Inv.lean)
    * the ply counter rises by exactly one per accepted move and the side to move
      alternates starting with White
    * the first two stones placed are one of each colour (first a black one, placed by
      White, then a white one).
  The model is `Tak.Impl.move` (Model/Move.lean), tied to `Position.move` by the
  correspondence check of the harness.  Property theorems only; helper lemmas are in
  Lemmas/Conservation.lean.
-/
import TakVerif.Spec.Inv
import TakVerif.Lemmas.Conservation

namespace Tak.C04

open Tak.Cons

/-- The initial position of every configuration satisfies the invariant. -/
theorem C04_init (cfg : Config) (h1 : 1 ≤ cfg.size) (h2 : 0 ≤ cfg.pieces) (h3 : 0 ≤ cfg.capstones) :
    Inv cfg (Pos.fromConfig cfg) := by
  refine ⟨⟨h1, by simp [Pos.fromConfig]⟩, rfl, ?_, ?_, ?_, ?_, ?_, by simp [Pos.fromConfig]⟩
  · intro c; rw [onBoard_eq]; simp only [Pos.fromConfig, cnt_replicate_nil]; cases c <;> simp [Pos.stones]
  · intro c; rw [onBoard_eq]; simp only [Pos.fromConfig, cnt_replicate_nil]; cases c <;> simp [Pos.caps]
  · intro c; cases c <;> exact h2
  · intro c; cases c <;> exact h3
  · intro s hs
    simp only [Pos.fromConfig, List.mem_replicate] at hs
    rw [hs.2]; exact sto_nil

/-- Every accepted move — ANY move value: any integer coordinates, any type, any drop
    tuple or none — leads from a consistent position to a consistent position. -/
theorem C04_step (cfg : Config) (p q : Pos) (m : Move)
    (hinv : Inv cfg p) (h : Impl.move p m = .ok q) : Inv cfg q := by
  unfold Impl.move at h
  split at h
  · exact absurd h (by simp)
  rename_i hib
  have hib' : p.inBounds m.x m.y = true := by simpa using hib
  split at h
  · rename_i hsl; exact Inv_moveSlide hinv hib' hsl h
  · exact Inv_movePlace hinv hib' h

/-- Conservation needs no configuration: for ANY well-formed position — whatever its reserves,
    equal between the colours or not, reachable or constructed — an accepted move leaves, for
    each colour, stones on the board + stone reserve and capstones on the board + capstone
    reserve exactly as they were.  (This is what the correspondence evaluates on every accepted
    move of its sessions: `move totals` before and after.) -/
theorem C04_totals_preserved (p q : Pos) (m : Move) (hwf : p.WF) (h : Impl.move p m = .ok q)
    (c : Color) :
    (q.onBoard c false : Int) + q.stones c = (p.onBoard c false : Int) + p.stones c ∧
    (q.onBoard c true : Int) + q.caps c = (p.onBoard c true : Int) + p.caps c := by
  unfold Impl.move at h
  split at h
  · exact absurd h (by simp)
  rename_i hib
  have hib' : p.inBounds m.x m.y = true := by simpa using hib
  split at h
  · rename_i hsl
    have hf := totals_moveSlide hwf hib' hsl h c false
    have ht := totals_moveSlide hwf hib' hsl h c true
    exact ⟨by rw [hf.1, hf.2.1], by rw [ht.1, ht.2.2]⟩
  · exact totals_movePlace hwf hib' h c

/-- A refused attempt produces no position: the game stays exactly where it was. -/
theorem C04_refused_unchanged (p : Pos) (m : Move) (e : Err) (h : Impl.move p m = .error e) :
    (∀ q, Impl.move p m ≠ .ok q) ∧ attempt p m = p ∧ ∀ ms, run p (m :: ms) = run p ms := by
  refine ⟨fun q hq => (by rw [h] at hq; cases hq), (by simp [attempt, h]), fun ms => ?_⟩
  rw [run_cons]; simp [attempt, h]

/-- Every reachable state is consistent: from the initial position of any configuration,
    after any list of ATTEMPTED moves (accepted and refused ones interleaved in any way). -/
theorem C04_reachable (cfg : Config) (h1 : 1 ≤ cfg.size) (h2 : 0 ≤ cfg.pieces)
    (h3 : 0 ≤ cfg.capstones) (ms : List Move) : Inv cfg (run (Pos.fromConfig cfg) ms) := by
  suffices ∀ (ms : List Move) (p : Pos), Inv cfg p → Inv cfg (run p ms) from
    this ms _ (C04_init cfg h1 h2 h3)
  intro ms
  induction ms with
  | nil => intro p hp; exact hp
  | cons m ms ih =>
    intro p hp
    rw [run_cons]
    apply ih
    unfold attempt
    split
    · rename_i q hq; exact C04_step cfg p q m hp hq
    · exact hp

/-- One accepted move raises `ply` by exactly one and passes the turn to the other colour. -/
theorem C04_ply_step (p q : Pos) (m : Move) (h : Impl.move p m = .ok q) :
    q.ply = p.ply + 1 ∧ q.toMove = p.toMove.flip :=
  ⟨move_ply h, toMove_succ (move_ply h)⟩

/-- Along any list of attempted moves from the initial position, `ply` is the number of
    accepted moves, and White is to move iff that number is even (the mover alternates,
    starting with White). -/
theorem C04_ply_and_turn (cfg : Config) (ms : List Move) :
    PlyTurnOK (accepted (Pos.fromConfig cfg) ms) (run (Pos.fromConfig cfg) ms).toMove
      (run (Pos.fromConfig cfg) ms) := by
  show (run (Pos.fromConfig cfg) ms).ply = (accepted (Pos.fromConfig cfg) ms : Int) ∧
    ((run (Pos.fromConfig cfg) ms).toMove = .white ↔ accepted (Pos.fromConfig cfg) ms % 2 = 0)
  have key : ∀ (ms : List Move) (p : Pos), (run p ms).ply = p.ply + (accepted p ms : Int) := by
    intro ms
    induction ms with
    | nil => intro p; simp [run, accepted]
    | cons m ms ih =>
      intro p
      rw [run_cons, ih]
      cases hm : Impl.move p m with
      | ok q => simp only [attempt, accepted, hm]; rw [move_ply hm]; omega
      | error e => simp only [attempt, accepted, hm]
  have hply := key ms (Pos.fromConfig cfg)
  have h0 : (Pos.fromConfig cfg).ply = 0 := rfl
  rw [h0] at hply
  refine ⟨by omega, ?_⟩
  unfold Pos.toMove
  rw [hply]
  constructor
  · intro h
    split at h
    · omega
    · cases h
  · intro h
    rw [if_pos (by omega)]

/-- The first two stones placed are one of each colour: after the first accepted move the
    board holds exactly one black flat (placed by White) and nothing else; after the second,
    exactly one white flat and one black flat and nothing else.  The stones came out of the
    matching reserves. -/
theorem C04_opening_colours (cfg : Config) (m1 m2 : Move) (p1 p2 : Pos)
    (h1 : Impl.move (Pos.fromConfig cfg) m1 = .ok p1) (h2 : Impl.move p1 m2 = .ok p2) :
    Opening1 p1 ∧ Opening2 p2 ∧
    p1.stones .black = cfg.pieces - 1 ∧ p1.stones .white = cfg.pieces ∧
    p2.stones .black = cfg.pieces - 1 ∧ p2.stones .white = cfg.pieces - 1 ∧
    (∀ c, p1.caps c = cfg.capstones ∧ p2.caps c = cfg.capstones) := by
  have hlen0 : (Pos.fromConfig cfg).board.length = (Pos.fromConfig cfg).size * (Pos.fromConfig cfg).size := by
    simp [Pos.fromConfig]
  obtain ⟨i, hi, _, hb1, hply1, hsz1, hst1, hcp1⟩ := opening_move hlen0 (by simp [Pos.fromConfig]) h1
  have hlen1 : p1.board.length = p1.size * p1.size := by
    rw [hb1, hsz1, List.length_set]; exact hlen0
  have hply1' : p1.ply = 1 := by rw [hply1]; rfl
  obtain ⟨j, hj, hej, hb2, hply2, hsz2, hst2, hcp2⟩ := opening_move hlen1 (by omega) h2
  have htm0 : (Pos.fromConfig cfg).toMove = .white := rfl
  have htm1 : p1.toMove = .black := by simp [Pos.toMove, hply1']
  rw [htm0] at hb1 hst1
  rw [htm1] at hb2 hst2
  simp only [Color.flip] at hb1 hst1 hb2 hst2
  have hc1 : ∀ c cap, cnt c cap p1.board = Pos.countStack c cap [⟨.black, .flat⟩] := by
    intro c cap
    rw [hb1, cnt_set_empty c cap _ i hi (by assumption)]
    simp [Pos.fromConfig, cnt_replicate_nil]
  have hc2 : ∀ c cap, cnt c cap p2.board =
      Pos.countStack c cap [⟨.black, .flat⟩] + Pos.countStack c cap [⟨.white, .flat⟩] := by
    intro c cap
    rw [hb2, cnt_set_empty c cap _ j hj hej, hc1]
  have hfs1 : FlatSingles p1 := by
    unfold FlatSingles; rw [hb1]; exact flatSingles_set (flatSingles_replicate _) _ _
  have hfs2 : FlatSingles p2 := by
    unfold FlatSingles; rw [hb2]; exact flatSingles_set hfs1 _ _
  refine ⟨⟨?_, ?_, ?_, ?_, hfs1, hply1'⟩, ⟨?_, ?_, ?_, ?_, hfs2, by omega⟩, ?_, ?_, ?_, ?_, ?_⟩
  any_goals (rw [onBoard_eq, hc1]; decide)
  any_goals (rw [onBoard_eq, hc2]; decide)
  · rw [hst1]; simp [Pos.stones, Pos.fromConfig]
  · rw [hst1]; simp [Pos.stones, Pos.fromConfig]
  · rw [hst2, hst1]; simp [Pos.stones, Pos.fromConfig]
  · rw [hst2, hst1]; simp [Pos.stones, Pos.fromConfig]
  · intro c
    rw [hcp2, hcp1]
    cases c <;> simp [Pos.caps, Pos.fromConfig]

/-- The same along any list of attempted moves with refused attempts interleaved: once
    exactly one move has been accepted the board shows one black flat, once exactly two
    have been accepted it shows one white flat and one black flat and nothing else. -/
theorem C04_opening_colours_run (cfg : Config) (ms : List Move) :
    (accepted (Pos.fromConfig cfg) ms = 1 → Opening1 (run (Pos.fromConfig cfg) ms)) ∧
    (accepted (Pos.fromConfig cfg) ms = 2 → Opening2 (run (Pos.fromConfig cfg) ms)) := by
  constructor
  · intro h
    obtain ⟨m1, p1, ms1, hm1, ha1, hr1⟩ := accepted_succ ms _ 0 h
    rw [hr1, run_of_accepted_zero ms1 p1 ha1]
    -- any second move would do; the first clause of the two-move theorem does not use it
    have hlen0 : (Pos.fromConfig cfg).board.length =
        (Pos.fromConfig cfg).size * (Pos.fromConfig cfg).size := by simp [Pos.fromConfig]
    obtain ⟨i, hi, he, hb1, hply1, _, _, _⟩ := opening_move hlen0 (by simp [Pos.fromConfig]) hm1
    have htm0 : (Pos.fromConfig cfg).toMove = .white := rfl
    rw [htm0] at hb1
    simp only [Color.flip] at hb1
    have hc1 : ∀ c cap, cnt c cap p1.board = Pos.countStack c cap [⟨.black, .flat⟩] := by
      intro c cap
      rw [hb1, cnt_set_empty c cap _ i hi he]
      simp [Pos.fromConfig, cnt_replicate_nil]
    refine ⟨?_, ?_, ?_, ?_, ?_, by rw [hply1]; rfl⟩
    any_goals (rw [onBoard_eq, hc1]; decide)
    unfold FlatSingles; rw [hb1]; exact flatSingles_set (flatSingles_replicate _) _ _
  · intro h
    obtain ⟨m1, p1, ms1, hm1, ha1, hr1⟩ := accepted_succ ms _ 1 h
    obtain ⟨m2, p2, ms2, hm2, ha2, hr2⟩ := accepted_succ ms1 _ 0 ha1
    rw [hr1, hr2, run_of_accepted_zero ms2 p2 ha2]
    exact (C04_opening_colours cfg m1 m2 p1 p2 hm1 hm2).2.1

/-- A position built from a board by `from_squares` satisfies the conservation equalities
    by construction (its reserves are DERIVED from the board; they may be negative). -/
theorem C04_from_squares (cfg : Config) (sqs : List Stack) (ply : Int) (p : Pos)
    (h : Pos.fromSquares cfg sqs ply = some p) :
    p.size = cfg.size ∧ p.board = sqs ∧ p.ply = ply ∧ p.board.length = p.size * p.size ∧
    (∀ c, (p.onBoard c false : Int) + p.stones c = cfg.pieces) ∧
    (∀ c, (p.onBoard c true : Int) + p.caps c = cfg.capstones) := by
  unfold Pos.fromSquares at h
  split at h
  · cases h
  rename_i hlen
  simp only [Option.some.injEq] at h
  subst h
  refine ⟨rfl, rfl, rfl, by simpa using hlen, ?_, ?_⟩ <;>
    (intro c; cases c <;> simp only [Pos.onBoard, Pos.stones, Pos.caps] <;> omega)

/-! ### Non-vacuity: concrete values meeting the hypotheses -/

section Examples

/-- a 5x5 game: opening, a wall, a capstone, a stack, a capstone flattening the wall, a
    two-square spread of a mixed stack; with refused attempts in between -/
def demoMoves : List Move := [
  ⟨0, 0, .placeFlat, none⟩,            -- White puts a black flat
  ⟨0, 0, .placeFlat, none⟩,            -- refused: occupied
  ⟨1, 0, .placeFlat, none⟩,            -- Black puts a white flat
  ⟨1, 1, .placeFlat, none⟩,
  ⟨7, -1, .placeFlat, none⟩,           -- refused: off the board
  ⟨2, 0, .placeStanding, none⟩,        -- black wall
  ⟨2, 1, .placeCap, none⟩,             -- white capstone
  ⟨0, 0, .right, some [1]⟩,            -- black flat onto the white flat: a stack
  ⟨1, 1, .right, some [1]⟩,            -- refused: onto a capstone
  ⟨2, 1, .down, some [1]⟩,             -- capstone flattens the wall
  ⟨1, 0, .up, some [0, 2]⟩,            -- refused: zero drop
  ⟨1, 0, .up, some [1, 1]⟩ ]           -- spread of the two-high stack

def demoCfg : Config := Config.standard 5
def demoMid : Pos := run (Pos.fromConfig demoCfg) (demoMoves.take 9)
def demoEnd : Pos := run (Pos.fromConfig demoCfg) demoMoves

-- `C04_init`: the hypotheses hold for the standard and for tiny custom configurations
example : 1 ≤ demoCfg.size ∧ 0 ≤ demoCfg.pieces ∧ 0 ≤ demoCfg.capstones := by decide
example : Inv ⟨3, 2, 1⟩ (Pos.fromConfig ⟨3, 2, 1⟩) := C04_init _ (by decide) (by decide) (by decide)

-- `C04_step`: a consistent mid-game position (stack, wall, capstone on the board) and an
-- accepted move from it — the capstone flattening the wall
example : Inv demoCfg demoMid ∧
    (Impl.move demoMid ⟨2, 1, .down, some [1]⟩).toOption.isSome = true ∧
    demoMid.onBoard .black false = 2 ∧ demoMid.onBoard .white true = 1 ∧ demoMid.ply = 6 := by
  decide +kernel

-- `C04_refused_unchanged`: a refused attempt exists at that position
example : (match Impl.move demoMid ⟨1, 1, .right, some [1]⟩ with
    | .error .illegal => true | _ => false) = true := by decide +kernel

-- `C04_reachable`, `C04_ply_and_turn`: the list has accepted and refused attempts
example : accepted (Pos.fromConfig demoCfg) demoMoves = 8 ∧ demoMoves.length = 12 ∧
    Inv demoCfg demoEnd ∧ demoEnd.ply = 8 ∧ demoEnd.toMove = .white := by
  decide +kernel

-- `C04_opening_colours(_run)`: two accepted moves with a refused one in between
example : accepted (Pos.fromConfig demoCfg) (demoMoves.take 3) = 2 ∧
    Opening2 (run (Pos.fromConfig demoCfg) (demoMoves.take 3)) := by
  decide +kernel

-- `C04_from_squares`: a board given square by square
example : (Pos.fromSquares ⟨3, 10, 0⟩
    [[⟨.white, .standing⟩, ⟨.black, .flat⟩], [], [], [], [⟨.black, .flat⟩], [], [], [], []] 5).isSome = true := by
  decide

-- `Inv` is not trivially true: a wall buried in a stack, or a miscounted reserve, fails it
example : ¬ Inv ⟨3, 10, 0⟩ ⟨3, 9, 0, 9, 0, 2, [[⟨.white, .flat⟩, ⟨.black, .standing⟩], [], [], [], [], [], [], [], []]⟩ := by
  decide
example : ¬ Inv ⟨3, 10, 0⟩ ⟨3, 9, 0, 10, 0, 2, [[⟨.white, .flat⟩], [⟨.black, .flat⟩], [], [], [], [], [], [], []]⟩ := by
  decide

end Examples

end Tak.C04

/-
  C18 — a self-play batch returns exactly N games or fails loudly; it never hangs.

  Transition system: `TakVerif/Model/Pool.lean` (parent + W workers + two bounded queues; faults:
  factory raises, evaluator/search raises during a game, SIGKILL in any state; the exit code of a
  worker that caught an exception is the parameter `failCode`).  All theorems: every N, every W
  (W ≥ 1 where a worker is needed), every interleaving, every placement of faults.
  Property theorems only; helper lemmas are in `Lemmas/Pool*.lean`.
-/
import TakVerif.Lemmas.Pool
import TakVerif.Lemmas.PoolStop
import TakVerif.Lemmas.PoolHang
import TakVerif.Lemmas.PoolExamples

namespace Tak.C18
open Tak.Pool

/-- **Conservation.**  In every reachable state (any faults, any schedule) every one of the N
    requested games is in exactly one place: not yet submitted, in `cmd`, being played, held by a
    worker, in `games`, received, or lost with a dead worker. -/
theorem C18_conservation {c : Cfg} {s : State} (h : Reachable c s) :
    s.todo + s.cmd + s.playing + s.holding + s.games + s.logs + s.lost = c.N :=
  (inv_reachable h).cons

example : sEx.todo + sEx.cmd + sEx.playing + sEx.holding + sEx.games + sEx.logs + sEx.lost = 5 :=
  C18_conservation sEx_reachable

/-- **Bounded queues.**  `cmd` never holds more than 2W ids, `games` never more than W transcripts. -/
theorem C18_queue_bounds {c : Cfg} {s : State} (h : Reachable c s) :
    s.cmd ≤ 2 * c.W ∧ s.games ≤ c.W :=
  bounds_reachable h

example : sEx.cmd ≤ 2 * 2 ∧ sEx.games ≤ 2 := C18_queue_bounds sEx_reachable

/-- **Exactly N, nothing left behind.**  When `play_many` returns, it has N transcripts, nothing is
    unsubmitted, both queues are empty, no worker plays or holds a game, and no game was lost —
    whatever faults happened on the way. -/
theorem C18_exact {c : Cfg} {s : State} (h : Reachable c s) (hd : done c s) :
    s.logs = c.N ∧ s.todo = 0 ∧ s.cmd = 0 ∧ s.games = 0 ∧ s.lost = 0 ∧
    ∀ w ∈ s.ws, w ≠ WState.playing ∧ w ≠ WState.holding := by
  have hc := C18_conservation h
  obtain ⟨_, hl⟩ := hd
  refine ⟨hl, by omega, by omega, by omega, by omega, ?_⟩
  have hp : s.playing = 0 := by omega
  have hh : s.holding = 0 := by omega
  intro w hw
  constructor
  · intro hw'; subst hw'
    have : ¬ 0 < s.playing := by omega
    apply this
    obtain ⟨j, hj⟩ := List.getElem?_of_mem hw
    have := wsum_set isPlaying s.ws j .playing .waiting hj
    simp [State.playing, isPlaying] at this ⊢; omega
  · intro hw'; subst hw'
    have : ¬ 0 < s.holding := by omega
    apply this
    obtain ⟨j, hj⟩ := List.getElem?_of_mem hw
    have := wsum_set isHolding s.ws j .holding .waiting hj
    simp [State.holding, isHolding] at this ⊢; omega

example : done cDone sDone ∧ sDone.logs = 2 := ⟨by decide, (C18_exact sDone_reachable (by decide)).1⟩

/-- **No carry-over.**  The state in which `play_many` returns is, after `todo := n; logs := 0`, a
    legitimate initial state of the next request for n games: every theorem of this file applies to
    the second, third, … call on the same engine, and none of its N comes from the previous call. -/
theorem C18_no_carry_over {c : Cfg} {s : State} (h : Reachable c s) (hd : done c s) (n : Nat) :
    Init { c with N := n } (s.nextRequest n) := by
  obtain ⟨_, h2, h3, h4, h5, h6⟩ := C18_exact h hd
  have hi := inv_reachable h
  refine ⟨rfl, h3, h4, rfl, h5, hd.1, hi.len, ?_⟩
  intro w hw
  have hw' : w ∈ s.ws := hw
  have hk := hi.codes w hw'
  have hne := h6 w hw'
  cases w with
  | init => trivial
  | waiting => trivial
  | playing => exact absurd rfl hne.1
  | holding => exact absurd rfl hne.2
  | dead k => exact hk

example : Init { cDone with N := 3 } (sDone.nextRequest 3) :=
  C18_no_carry_over sDone_reachable (by decide) 3

/-- **Potential.**  Every action other than the parent's time-out poll strictly decreases
    `potential = 5·todo + 4·|cmd| + |games| + Σ wt(worker) + [parent running]`; a poll never
    increases it and either changes nothing or raises. -/
theorem C18_potential {c : Cfg} {s s' : State} {a : Act} (h : Step c s a s') :
    (a ≠ .poll → potential s' < potential s) ∧
    (a = .poll → s' = s ∨ (s' = { s with phase := .raised } ∧ crashed s = true)) := by
  refine ⟨(potential_step h).1, ?_⟩
  intro ha; subst ha
  unfold Step at h
  simp only [step?] at h
  split at h
  · split at h
    · rename_i hcr; simp at h; exact Or.inr ⟨h.symm, hcr⟩
    · simp at h; exact Or.inl h.symm
  · simp at h

example : Step cEx sEx (.finish 0) { sEx with ws := [.holding, .dead killCode] } ∧
    potential { sEx with ws := [.holding, .dead killCode] } < potential sEx := by decide

/-- **Finitely many steps.**  Along any execution from a fresh engine at most `5N + 2W + 1`
    actions are not polls (faults included): after that many, only polls remain. -/
theorem C18_bounded {c : Cfg} {acts : List Act} {s : State} (h : run c (fresh c) acts = some s) :
    nonPoll acts ≤ 5 * c.N + 2 * c.W + 1 := by
  have := run_bound acts _ _ h
  rw [potential_fresh] at this
  omega

example : nonPoll actsEx = 17 ∧ nonPoll actsEx ≤ 5 * 5 + 2 * 2 + 1 := by decide

/-- **No silent stall.**  If the exit code of a failed worker is non-zero (repaired `entrypoint`),
    then in every reachable state in which the request is incomplete and nothing but the time-out
    poll (or a further fault) can happen, some worker is dead with a non-zero exit code. -/
theorem C18_no_silent_stall {c : Cfg} {s : State} (hW : 1 ≤ c.W) (hf : c.failCode ≠ 0)
    (h : Reachable c s) (hrun : s.phase = .running) (hnd : ¬ done c s) (hst : Stalled c s) :
    ∃ (j : Nat) (k : Int), s.ws[j]? = some (WState.dead k) ∧ k ≠ 0 := by
  have hi := inv_reachable h
  have hlt : s.logs < c.N := by
    have := hi.cons
    have : s.logs ≠ c.N := fun he => hnd ⟨hrun, he⟩
    omega
  obtain ⟨_, w, hw, k, rfl⟩ := stall_core hi hW hrun hlt hst
  obtain ⟨j, hj⟩ := List.getElem?_of_mem hw
  refine ⟨j, k, hj, ?_⟩
  rcases hi.codes _ hw with hk | hk
  · rw [hk]; exact hf
  · rw [hk]; decide

example : ∃ (j : Nat) (k : Int), sSt.ws[j]? = some (WState.dead k) ∧ k ≠ 0 :=
  C18_no_silent_stall (c := cSt) (by decide) (by decide)
    (reachable_of_run (Reachable.init (fresh_init cSt)) sSt_run) rfl (by decide) sSt_stalled

/-- … hence the poll is enabled there and its only result is `RuntimeError`: a stalled incomplete
    request raises at the next 1-second time-out.  With `C18_bounded`: every execution reaches
    `done` or `raised` after at most `5N + 2W + 1` non-poll actions and one more poll. -/
theorem C18_stall_raises {c : Cfg} {s : State} (hW : 1 ≤ c.W) (hf : c.failCode ≠ 0)
    (h : Reachable c s) (hrun : s.phase = .running) (hnd : ¬ done c s) (hst : Stalled c s) :
    step? c s .poll = some { s with phase := .raised } := by
  have hi := inv_reachable h
  have hlt : s.logs < c.N := by
    have := hi.cons
    have : s.logs ≠ c.N := fun he => hnd ⟨hrun, he⟩
    omega
  obtain ⟨hg, _⟩ := stall_core hi hW hrun hlt hst
  obtain ⟨j, k, hj, hk⟩ := C18_no_silent_stall hW hf h hrun hnd hst
  have hcr := crashed_of_mem (mem_of_getElem? hj) hk
  simp [step?, hrun, hlt, hg, hcr]

example : step? cSt sSt .poll = some { sSt with phase := .raised } :=
  C18_stall_raises (by decide) (by decide)
    (reachable_of_run (Reachable.init (fresh_init cSt)) sSt_run) rfl (by decide) sSt_stalled

/-- **Fault-free requests complete.**  Without faults the parent never raises, nothing is lost, and
    the only state in which nothing but polling is possible is `done` (with exactly N, by `C18_exact`). -/
theorem C18_faultfree {c : Cfg} {s : State} (hW : 1 ≤ c.W) (h : FFReachable c s) :
    s.phase = .running ∧ s.lost = 0 ∧ (Stalled c s → done c s) := by
  obtain ⟨hr, hd, hp⟩ := ff_inv h
  have hi := inv_reachable hr
  have hl : s.lost = 0 := by have := hi.lostDead; omega
  refine ⟨hp, hl, ?_⟩
  intro hst
  apply Classical.byContradiction
  intro hnd
  have hlt : s.logs < c.N := by
    have := hi.cons
    have : s.logs ≠ c.N := fun he => hnd ⟨hp, he⟩
    omega
  obtain ⟨_, w, hw, k, rfl⟩ := stall_core hi hW hp hlt hst
  have := wsum_isDead_pos k _ hw
  simp [State.deadCount] at hd
  omega

example : FFReachable cSt { (fresh cSt) with todo := 0, cmd := 1 } :=
  FFReachable.step FFReachable.init (a := .put) rfl (by decide)

/-- **The pinned code hangs** (failCode = 0: `entrypoint` swallows the exception and the worker
    exits 0).  Explicit execution from a fresh engine, N = 1, W = 1: submit, start, take, the
    evaluator raises.  In the state reached the request is incomplete, the parent is running, and
    the ONLY enabled action is the poll, which leaves the state unchanged — for ever. -/
theorem C18_hang_witness :
    ∃ s, run { N := 1, W := 1, failCode := 0 } (fresh { N := 1, W := 1, failCode := 0 })
            [.put, .start 0, .take 0, .gameFail 0] = some s ∧
      s.phase = .running ∧ ¬ done { N := 1, W := 1, failCode := 0 } s ∧
      step? { N := 1, W := 1, failCode := 0 } s .poll = some s ∧
      ∀ a s', Step { N := 1, W := 1, failCode := 0 } s a s' → a = .poll ∧ s' = s := by
  refine ⟨{ todo := 0, cmd := 0, games := 0, logs := 0, lost := 1, ws := [.dead 0], phase := .running },
    by decide, rfl, by decide, by decide, ?_⟩
  intro a s' h
  unfold Step at h
  cases a <;> simp [step?, crashed] at h
  · exact ⟨rfl, h.symm⟩
  all_goals (rename_i j; cases j <;> simp [WState.live] at h)

/-- … and for EVERY N ≥ 1 and every W: if every worker's factory raises (exit code 0), the state
    reached from a fresh engine can never reach `done` nor `raised`, whatever happens next. -/
theorem C18_hang_general (N W : Nat) (hN : 1 ≤ N) :
    ∃ acts s, run { N := N, W := W, failCode := 0 } (fresh { N := N, W := W, failCode := 0 }) acts = some s ∧
      ∀ acts' s', run { N := N, W := W, failCode := 0 } s acts' = some s' →
        s'.phase = .running ∧ s'.logs < N := by
  refine ⟨failAll 0 W, midState { N := N, W := W, failCode := 0 } (0 + W) 0, ?_, ?_⟩
  · rw [fresh_eq_mid]; exact run_failAll _ W 0
  · intro acts' s' h
    have hh : Hung { N := N, W := W, failCode := 0 } (midState { N := N, W := W, failCode := 0 } (0 + W) 0) := by
      refine ⟨rfl, hN, rfl, ?_⟩
      intro w hw
      simp [midState] at hw
      exact hw.2
    have := hung_run acts' _ _ hh h
    exact ⟨this.1, this.2.1⟩

example : ∃ acts s, run { N := 5, W := 3, failCode := 0 } (fresh { N := 5, W := 3, failCode := 0 }) acts = some s ∧
    ∀ acts' s', run { N := 5, W := 3, failCode := 0 } s acts' = some s' → s'.phase = .running ∧ s'.logs < 5 :=
  C18_hang_general 5 3 (by decide)

/-- **`stop()` joins.**  After a completed request the engine is a legitimate start of the stop
    protocol (`cmd` is empty, so the W non-blocking `put(None)` fit; nobody holds a game). -/
theorem C18_stop_after_done {c : Cfg} {s : State} (h : Reachable c s) (_hd : done c s) :
    StopInit c.W (stopOf c s) :=
  stopOf_init (inv_reachable h).len

/-- In the stop protocol (W `None`s, then the shutdown event; workers may still be in their factory,
    may raise there, may be killed) every action strictly decreases `spotential`, and when no
    protocol action is enabled any more every worker has an exit code: `join` returns for all W. -/
theorem C18_stop_joins {W : Nat} {fc : Int} {s : StopState} (h : StopReachable W fc s) :
    (∀ a s', sstep? fc s a = some s' → spotential s' < spotential s) ∧
    (StopStalled fc s → ∀ w ∈ s.ws, ∃ k, w = SW.dead k) :=
  ⟨fun _ _ hs => spotential_step hs, fun hst => stop_stalled_all_dead (sinv_reachable h) hst⟩

example : StopInit 2 (stopOf cDone sDone) := C18_stop_after_done sDone_reachable (by decide)

example : ∃ s, StopReachable 2 1 s ∧ s.ws = [.dead 0, .dead killCode] ∧ s.shutdown = true := by
  have h0 : StopReachable 2 1 (stopOf cDone sDone) :=
    .init (C18_stop_after_done sDone_reachable (by decide))
  have h1 := StopReachable.step h0 (a := .putNone) (s' := _) (by decide : sstep? 1 _ _ = some
    { putsLeft := 1, nones := 1, shutdown := false, ws := [.waiting, .dead killCode] })
  have h2 := StopReachable.step h1 (a := .putNone) (s' := _) (by decide : sstep? 1 _ _ = some
    { putsLeft := 0, nones := 2, shutdown := false, ws := [.waiting, .dead killCode] })
  have h3 := StopReachable.step h2 (a := .takeNone 0) (s' := _) (by decide : sstep? 1 _ _ = some
    { putsLeft := 0, nones := 1, shutdown := false, ws := [.parked, .dead killCode] })
  have h4 := StopReachable.step h3 (a := .setShutdown) (s' := _) (by decide : sstep? 1 _ _ = some
    { putsLeft := 0, nones := 1, shutdown := true, ws := [.parked, .dead killCode] })
  have h5 := StopReachable.step h4 (a := .exit 0) (s' := _) (by decide : sstep? 1 _ _ = some
    { putsLeft := 0, nones := 1, shutdown := true, ws := [.dead 0, .dead killCode] })
  exact ⟨_, h5, rfl, rfl⟩

/-- **`stop()` after a failure never blocks.**  When `play_many` has raised (every worker killed,
    up to 2W ids still in `cmd`), the `finally: engine.stop()` of `play_many_games` makes at most W
    non-blocking put attempts and then either returns (iff the W `None`s fit: `cmd ≤ W`; every
    process is dead, so every `join` returns) or propagates `queue.Full` (iff `W < cmd`) — it is
    never left waiting: the whole request still fails loudly in bounded time. -/
theorem C18_stop_after_raise {c : Cfg} {s : State} (h : Reachable c s) (hW : 1 ≤ c.W) :
    stopAfterRaise false (2 * c.W) s.cmd c.W ≠ .blocked ∧
    (stopAfterRaise false (2 * c.W) s.cmd c.W = .joined ↔ s.cmd ≤ c.W) ∧
    (stopAfterRaise false (2 * c.W) s.cmd c.W = .full ↔ c.W < s.cmd) ∧
    putAttempts (2 * c.W) s.cmd c.W ≤ c.W ∧
    ∀ w ∈ (killAll s).ws, ∃ k, w = WState.dead k := by
  have _hb := (C18_queue_bounds h).1
  obtain ⟨h1, h2, h3⟩ := stopAfterRaise_nonblocking (2 * c.W) c.W s.cmd
  refine ⟨h3, ?_, ?_, putAttempts_le _ _ _, killAll_dead s⟩
  · rw [h1]; omega
  · rw [h2]; omega

/-- a raise with a backlog: N = 5 on one worker whose first game raises; `cmd` is full again -/
example : ∃ s, run { N := 5, W := 1, failCode := 1 } (fresh { N := 5, W := 1, failCode := 1 })
      [.put, .put, .start 0, .take 0, .put, .gameFail 0, .poll] = some s ∧
    s.phase = .raised ∧ s.cmd = 2 ∧ stopAfterRaise false 2 s.cmd 1 = .full := by
  refine ⟨{ todo := 2, cmd := 2, games := 0, logs := 0, lost := 1, ws := [.dead 1], phase := .raised }, ?_⟩
  decide

/-- **A blocking `put(None)` in `stop()` hangs the request** exactly when the backlog leaves fewer
    than W free slots: nobody reads `cmd` after the kill. -/
theorem C18_stop_blocking_hangs {c : Cfg} {s : State} (hW : 1 ≤ c.W) :
    stopAfterRaise true (2 * c.W) s.cmd c.W = .blocked ↔ c.W < s.cmd := by
  rw [stopAfterRaise_blocking]; omega

example : stopAfterRaise true 2 2 1 = .blocked := by decide

end Tak.C18

/-
  C07 — move ids are a bijection with the move universe of each board size.

  Model: `Gen.slides`, `Gen.allMovesForSize`, `Gen.decodeMove`, `Gen.encodeMove`
  (python/tak/moves.py, python/tak/model/encoding.py).  Spec: `MoveWF` (Spec/MoveWF.lean).
  All theorems hold for EVERY board size `n` unless a size is written out.
-/
import TakVerif.Model.Gen
import TakVerif.Spec.MoveWF
import TakVerif.Spec.Rules
import TakVerif.Lemmas.Slides
import TakVerif.Lemmas.MoveTable
import TakVerif.Lemmas.Generator

namespace Tak.C07
open Tak Gen

/-- `ALL_SLIDES[n]` holds exactly the non-empty sequences of positive drops with total ≤ n -/
theorem C07_slides_mem (n : Nat) (l : List Nat) :
    l ∈ Gen.slides n ↔ l ≠ [] ∧ (∀ d ∈ l, 1 ≤ d) ∧ l.sum ≤ n :=
  slides_mem n l

example : [2, 1, 2] ∈ Gen.slides 5 := (C07_slides_mem 5 _).2 (by decide)
example : [2, 1, 3] ∉ Gen.slides 5 := fun h => absurd ((C07_slides_mem 5 _).1 h) (by decide)

/-- … each exactly once -/
theorem C07_slides_nodup (n : Nat) : (Gen.slides n).Nodup := slides_nodup n

example : (Gen.slides 3) = [[1], [1, 1], [1, 1, 1], [1, 2], [2], [2, 1], [3]] := by decide +kernel

/-- the table of size `n` holds exactly the well-formed moves of size `n` -/
theorem C07_table_mem (n : Nat) (m : Move) : m ∈ Gen.allMovesForSize n ↔ MoveWF n m :=
  table_mem n m

example : (⟨2, 0, .up, some [1, 2, 1]⟩ : Move) ∈ Gen.allMovesForSize 5 :=
  (C07_table_mem 5 _).2 (by decide)
-- runs off the board: three squares travelled, two before the edge
example : (⟨2, 2, .up, some [1, 1, 1]⟩ : Move) ∉ Gen.allMovesForSize 5 :=
  fun h => absurd ((C07_table_mem 5 _).1 h) (by decide)
-- zero drop; placement carrying drops; slide without drops
example : ¬ MoveWF 5 ⟨2, 2, .up, some [1, 0]⟩ := by decide
example : ¬ MoveWF 5 ⟨2, 2, .placeFlat, some [1]⟩ := by decide
example : ¬ MoveWF 5 ⟨2, 2, .left, none⟩ := by decide

/-- … each exactly once, hence ids `0 .. length-1` number the well-formed moves one-to-one -/
theorem C07_table_nodup (n : Nat) : (Gen.allMovesForSize n).Nodup := table_nodup n

/-- "stays on the board", said with squares instead of a distance: for an on-board origin,
    `ds.length ≤ edgeDist` holds iff every square the slide visits is on the board. -/
theorem C07_wf_stays_on_board (n : Nat) (m : Move) (k : Nat) (hk : 1 ≤ k)
    (hs : m.type.isSlide = true) (hx : 0 ≤ m.x ∧ m.x < n) (hy : 0 ≤ m.y ∧ m.y < n) :
    (k : Int) ≤ edgeDist n m ↔
      ∀ i, i < k → 0 ≤ (Rules.pathSq m i).1 ∧ (Rules.pathSq m i).1 < n ∧
        0 ≤ (Rules.pathSq m i).2 ∧ (Rules.pathSq m i).2 < n :=
  ⟨path_of_length_le_edgeDist hx hy, length_le_edgeDist_of_path hk hs⟩

-- the 3-drop slide up from (2,0) on 5x5 visits (2,1), (2,2), (2,3): room is 4
example : ((3 : Nat) : Int) ≤ edgeDist 5 ⟨2, 0, .up, some [1, 2, 1]⟩ ∧
    ¬ ((3 : Nat) : Int) ≤ edgeDist 5 ⟨2, 2, .up, some [1, 1, 1]⟩ := by decide

/-- decoding an id in range and encoding the result gives the id back -/
theorem C07_decode_encode (n i : Nat) (hi : i < (Gen.allMovesForSize n).length) :
    ∃ m, Gen.decodeMove n i = some m ∧ Gen.encodeMove n m = some i := by
  refine ⟨(allMovesForSize n)[i], ?_, ?_⟩
  · unfold decodeMove; exact List.getElem?_eq_getElem hi
  · unfold encodeMove; exact lastIdxOf_getElem (table_nodup n) hi

/-- every well-formed move has an id in range, and decoding that id gives the move back -/
theorem C07_encode_decode (n : Nat) (m : Move) (h : MoveWF n m) :
    ∃ i, Gen.encodeMove n m = some i ∧ Gen.decodeMove n i = some m ∧
      i < (Gen.allMovesForSize n).length := by
  obtain ⟨i, hi⟩ := lastIdxOf_of_mem ((table_mem n m).2 h)
  have h1 := lastIdxOf_some hi
  refine ⟨i, hi, h1, ?_⟩
  rcases Nat.lt_or_ge i (allMovesForSize n).length with h | h
  · exact h
  · rw [List.getElem?_eq_none h] at h1; cases h1

/-- only well-formed moves have an id; out-of-range ids decode to nothing -/
theorem C07_encode_some_wf (n : Nat) (m : Move) (i : Nat) (h : Gen.encodeMove n m = some i) :
    MoveWF n m ∧ i < (Gen.allMovesForSize n).length ∧ Gen.decodeMove n i = some m := by
  have h1 := lastIdxOf_some h
  have hi : i < (allMovesForSize n).length := by
    rcases Nat.lt_or_ge i (allMovesForSize n).length with h | h
    · exact h
    · rw [List.getElem?_eq_none h] at h1; cases h1
  refine ⟨(table_mem n m).1 ?_, hi, h1⟩
  rw [List.getElem?_eq_getElem hi] at h1
  simp only [Option.some.injEq] at h1
  exact h1 ▸ List.getElem_mem hi

theorem C07_decode_none (n i : Nat) (h : (Gen.allMovesForSize n).length ≤ i) :
    Gen.decodeMove n i = none := List.getElem?_eq_none h

example : Gen.encodeMove 5 ⟨2, 0, .up, some [1, 2, 1]⟩ = some 648 := by decide +kernel
example : Gen.decodeMove 5 648 = some ⟨2, 0, .up, some [1, 2, 1]⟩ := by decide +kernel
example : Gen.encodeMove 5 ⟨2, 2, .up, some [1, 1, 1]⟩ = none := by decide +kernel

/-- the four table lengths the network is built for -/
theorem C07_lengths :
    (Gen.allMovesForSize 3).length = 135 ∧ (Gen.allMovesForSize 4).length = 496 ∧
    (Gen.allMovesForSize 5).length = 1575 ∧ (Gen.allMovesForSize 6).length = 4572 := by
  decide +kernel

/-- every size the policy head serves fits within its width
    (`MAX_MOVE_ID = len(MOVES_BY_SIZE[6])`, `move_proj : d_model → MAX_MOVE_ID`) -/
theorem C07_width : ∀ n ∈ [3, 4, 5, 6],
    (Gen.allMovesForSize n).length ≤ (Gen.allMovesForSize 6).length := by
  decide +kernel

/-- the same for every table `MOVES_BY_SIZE` holds (sizes 0..6) -/
theorem C07_width_all : ∀ n, n ≤ 6 →
    (Gen.allMovesForSize n).length ≤ (Gen.allMovesForSize 6).length := by
  decide +kernel

end Tak.C07

/-
  C16 — a position's evaluation does not depend on batching or padding.

  All theorems are about `Model/Xformer.lean` (the model of `xformer.Transformer`, the
  `PolicyValue` head, `ModelWrapper.evaluate` and the mask-building call sites), instantiated
  at `ℝ`.  They hold for EVERY weight assignment and every shape: number of layers, width,
  number of heads, head width, positional kind, vocabulary, context size — including
  ill-shaped weights, for which the totalised accessors of the model stand for a torch error
  (`Model.accepts` says when torch runs; `C16_padding_checked` is the guarded form).

  Not covered by proof (stated in DESIGN.md §7): IEEE rounding, torch's choice of kernels
  (fast-path attention), `GraphedWrapper`.  That torch evaluates the rows of a batch
  independently is part of the trusted base (`forwardPVBatch` is a `map` by definition); the
  numerical tie `corr.xformer` checks it on every run.
-/
import TakVerif.Lemmas.XformerReal

namespace Tak.C16
open Tak.Xformer

/-! ### hidden keys -/

/-- Keys whose mask bit is set contribute exactly 0 to every attention output:
    (1) their softmax weight is `0`;
    (2) the output of a head equals the output computed over the visible keys only;
    (3) hence two key lists with the same visible sub-list give the same output — the key and
        value vectors of hidden keys (pad content, later tokens) are irrelevant. -/
theorem C16_masked_keys_inert (dHead : Nat) (scale : ℝ) (q : List ℝ) (keys : List (Key ℝ)) :
    (∀ (sc : List (Bool × ℝ)) (j : Nat) (hj : j < sc.length), sc[j].1 = false →
        (maskedSoftmax sc)[j]'(by simpa [maskedSoftmax] using hj) = 0) ∧
    attnHead dHead scale q keys = attnHead dHead scale q (keys.filter (·.1)) ∧
    (∀ keys' : List (Key ℝ), keys'.filter (·.1) = keys.filter (·.1) →
        attnHead dHead scale q keys' = attnHead dHead scale q keys) := by
  refine ⟨fun sc j hj h => maskedSoftmax_hidden sc j hj h, inert_real dHead scale q keys, ?_⟩
  intro keys' h
  rw [inert_real dHead scale q keys', inert_real dHead scale q keys, h]

/-- Masking by exclusion (the model) is torch's additive `-∞` mask followed by an ordinary
    softmax, computed over `ℝ ∪ {-∞}` with `exp(-∞) = 0`. -/
theorem C16_additive_neg_inf (l : List (Bool × ℝ)) :
    maskedSoftmax l = softmaxBot (l.map addMask) :=
  maskedSoftmax_eq_softmaxBot l

/-! ### padding -/

/-- Per-token activations of the real tokens are identical through all layers, for ANY pad
    content and ANY pad width. -/
theorem C16_padding_hidden (M : Model ℝ) (toks pad : List Nat) :
    (M.hidden (toks ++ pad) (some (padMask toks.length pad.length))).take toks.length =
      M.hidden toks none :=
  M.hidden_take inert_real toks pad (prefixMask_pad M.causal toks.length pad.length)

/-- `forward W (toks ++ pad) (mask toks pad)).take toks.length = forward W toks noMask`
    (text head: logits of every real token). -/
theorem C16_padding (M : Model ℝ) (H : TextHead ℝ) (toks pad : List Nat) :
    (forwardText M H (toks ++ pad) (some (padMask toks.length pad.length))).take toks.length =
      forwardText M H toks none :=
  forwardText_take inert_real M H toks pad (prefixMask_pad M.causal toks.length pad.length)

/-- … hence the read-out at token 0 (value, policy logits) is identical. -/
theorem C16_padding_policyValue (M : Model ℝ) (H : PVHead ℝ) (toks pad : List Nat) (h0 : toks ≠ []) :
    forwardPV M H (toks ++ pad) (some (padMask toks.length pad.length)) = forwardPV M H toks none :=
  forwardPV_prefix inert_real M H toks pad h0 (prefixMask_pad M.causal toks.length pad.length)

/-- Guarded form: whenever torch accepts the padded row (shapes, token range, context size,
    mask width) it accepts the row alone, and returns the same value and logits. -/
theorem C16_padding_checked (M : Model ℝ) (H : PVHead ℝ) (toks pad : List Nat) (h0 : toks ≠ [])
    (out : ℝ × List ℝ)
    (h : forwardPV? M H (toks ++ pad) (some (padMask toks.length pad.length)) = some out) :
    forwardPV? M H toks none = some out := by
  unfold forwardPV? at h ⊢
  split at h
  · rename_i hc
    simp only [Option.some.injEq] at h
    simp only [Bool.and_eq_true] at hc
    obtain ⟨⟨⟨⟨⟨hacc', _⟩, h3⟩, h4⟩, h5⟩, h6⟩ := hc
    have hacc : M.accepts toks none = true := by
      simp only [Model.accepts, Bool.and_eq_true, List.all_append, Bool.or_eq_true, decide_eq_true_eq,
        List.length_append] at hacc' ⊢
      obtain ⟨⟨⟨hs, ht, _⟩, hl⟩, _⟩ := hacc'
      refine ⟨⟨⟨hs, ht⟩, ?_⟩, trivial⟩
      rcases hl with hl | hl
      · left; omega
      · right; exact hl
    have hne : toks.isEmpty = false := by
      cases toks with
      | nil => exact absurd rfl h0
      | cons _ _ => rfl
    rw [if_pos]
    · rw [← h, C16_padding_policyValue M H toks pad h0]
    · simp only [Bool.and_eq_true, hacc, hne, Bool.not_false, true_and]
      exact ⟨⟨⟨h3, h4⟩, h5⟩, h6⟩
  · cases h

/-! ### batches -/

/-- The model maps the rows of a batch independently (by definition; that torch does so is
    in the trusted base and checked by the tie). -/
theorem C16_batch (M : Model ℝ) (H : PVHead ℝ) (rows : List (List Nat)) (masks : List (List Bool))
    (hm : masks.length = rows.length) (i : Nat) (hi : i < rows.length) :
    (forwardPVBatch M H rows (some masks))[i]'(by simp [forwardPVBatch, hm, hi]) =
      forwardPV M H rows[i] (some (masks[i]'(by omega))) ∧
    (forwardPVBatch M H rows none)[i]'(by simp [forwardPVBatch, hi]) = forwardPV M H rows[i] none := by
  simp [forwardPVBatch]

/-- A batch of positions of mixed lengths, each padded with ARBITRARY content `fills[i]` (to a
    common width or not) and masked with its own padding mask, evaluates every position
    exactly as that position alone. -/
theorem C16_batch_padded (M : Model ℝ) (H : PVHead ℝ) :
    ∀ (ps fills : List (List Nat)), ps.length = fills.length → (∀ p ∈ ps, p ≠ []) →
      forwardPVBatch M H (List.zipWith (· ++ ·) ps fills)
          (some (List.zipWith (fun p f => padMask p.length f.length) ps fills)) =
        ps.map (fun p => forwardPV M H p none) := by
  intro ps
  induction ps with
  | nil => intro fills _ _; simp [forwardPVBatch]
  | cons p ps ih =>
    intro fills hl hne
    cases fills with
    | nil => simp at hl
    | cons f fs =>
      have ih' := ih fs (by simpa using hl) (fun q hq => hne q (List.mem_cons_of_mem _ hq))
      simp only [forwardPVBatch, List.zipWith_cons_cons, List.map_cons] at ih' ⊢
      rw [ih', C16_padding_policyValue M H p f (hne p List.mem_cons_self)]

/-- the same with the pad chosen per row by a function (the form the call sites produce) -/
theorem C16_batch_padded_map (M : Model ℝ) (H : PVHead ℝ) (fill : List Nat → List Nat)
    (rows : List (List Nat)) (hne : ∀ p ∈ rows, p ≠ []) :
    forwardPVBatch M H (rows.map (fun r => r ++ fill r))
        (some (rows.map (fun r => padMask r.length (fill r).length))) =
      rows.map (fun p => forwardPV M H p none) := by
  induction rows with
  | nil => simp [forwardPVBatch]
  | cons p ps ih =>
    have ih' := ih (fun q hq => hne q (List.mem_cons_of_mem _ hq))
    simp only [forwardPVBatch, List.zipWith_cons_cons, List.map_cons] at ih' ⊢
    rw [ih', C16_padding_policyValue M H p (fill p) (hne p List.mem_cons_self)]

/-! ### the call sites -/

/-- Each of the three mask constructions yields exactly `padMask len pad`:
    (1) `encode_batch` + `~mask` (`PositionValuePolicy`, `ReplayBufferBatch`): rows zero-padded
        to the longest, mask row = `padMask len (w - len)`;
    (2) `Server.run_model`: the same rows and the same masks;
    (3) `cat_replay_buffer` widening a stored row keeps that form;
    (4) `ModelWrapper.evaluate` passes one unpadded row and no mask, which is the `pad = []`
        instance: `none` and `padMask len 0` are interchangeable. -/
theorem C16_call_sites (rows : List (List Nat)) :
    ((encodeBatch rows).1 = rows.map (fun r => r ++ List.replicate (maxLen rows - r.length) 0) ∧
     extraInputs (encodeBatch rows).2 = rows.map (fun r => padMask r.length (maxLen rows - r.length))) ∧
    ((serverBatch rows).1 = rows.map (fun r => r ++ List.replicate (maxLen rows - r.length) 0) ∧
     (serverBatch rows).2 = rows.map (fun r => padMask r.length (maxLen rows - r.length))) ∧
    (∀ (len k w : Nat) (row : List Nat),
      ((widenRow w row (List.replicate len true ++ List.replicate k false)).2).map (!·) =
        padMask len (k + (w - (len + k)))) ∧
    (∀ (M : Model ℝ) (H : PVHead ℝ) (toks : List Nat),
      evaluate M H toks = (softmax (forwardPV M H toks none).2, (forwardPV M H toks none).1) ∧
      forwardPV M H toks (some (padMask toks.length 0)) = forwardPV M H toks none) := by
  refine ⟨⟨rfl, ?_⟩, ⟨rfl, ?_⟩, ?_, ?_⟩
  · simp only [extraInputs, encodeBatch, List.map_map]
    apply List.map_congr_left
    intro r _
    exact extraInputs_row r.length (maxLen rows)
  · simp only [serverBatch]
    apply List.map_congr_left
    intro r hr
    exact server_row r.length (maxLen rows) (length_le_maxLen rows r hr)
  · intro len k w row
    simp only [widenRow, padMask, List.map_append, List.map_replicate, Bool.not_true, Bool.not_false,
      List.length_append, List.length_replicate, List.append_assoc, List.replicate_append_replicate]
  · intro M H toks
    refine ⟨rfl, ?_⟩
    obtain ⟨J, hJ, hE⟩ := M.hidden_prefix inert_real toks [] (prefixMask_pad M.causal toks.length 0)
    have : J = [] := List.eq_nil_of_length_eq_zero hJ
    subst this
    simp only [List.append_nil] at hE
    unfold forwardPV
    rw [hE]

/-- End to end for the two batch-building call sites: what `Server.run_model` and a training
    batch (`model(batch.inputs, *batch.extra_inputs)`) compute for row `i` is the evaluation
    of position `i` alone. -/
theorem C16_call_sites_batches (M : Model ℝ) (H : PVHead ℝ) (rows : List (List Nat))
    (hne : ∀ p ∈ rows, p ≠ []) :
    forwardPVBatch M H (serverBatch rows).1 (some (serverBatch rows).2) =
      rows.map (fun p => forwardPV M H p none) ∧
    forwardPVBatch M H (encodeBatch rows).1 (some (extraInputs (encodeBatch rows).2)) =
      rows.map (fun p => forwardPV M H p none) := by
  obtain ⟨⟨e1, e2⟩, ⟨s1, s2⟩, _, _⟩ := C16_call_sites rows
  have key := C16_batch_padded_map M H (fun r => List.replicate (maxLen rows - r.length) 0) rows hne
  simp only [List.length_replicate] at key
  exact ⟨by rw [s1, s2]; exact key, by rw [e1, e2]; exact key⟩

/-! ### causal mask -/

/-- With the causal mask enabled the output at a token does not depend on later tokens. -/
theorem C16_causal (M : Model ℝ) (H : TextHead ℝ) (toks suffix : List Nat) (hc : M.causal = true) :
    (forwardText M H (toks ++ suffix) none).take toks.length = forwardText M H toks none := by
  have hm := prefixMask_causal none toks.length (toks.length + suffix.length)
  rw [← hc] at hm
  exact forwardText_take inert_real M H toks suffix hm

/-- … also under a key-padding mask, whatever the mask says about the suffix, and for the
    activations of every layer's output. -/
theorem C16_causal_masked (M : Model ℝ) (toks suffix : List Nat) (m mt : List Bool)
    (hc : M.causal = true) (hm : m.length = toks.length) :
    (M.hidden (toks ++ suffix) (some (m ++ mt))).take toks.length = M.hidden toks (some m) := by
  have h := prefixMask_causal_ext m mt (toks.length + suffix.length)
  rw [← hc, hm] at h
  exact M.hidden_take inert_real toks suffix h

/-- In a causal model the token-0 read-out of the `PolicyValue` head sees token 0 only. -/
theorem C16_causal_policyValue (M : Model ℝ) (H : PVHead ℝ) (toks suffix : List Nat)
    (hc : M.causal = true) (h0 : toks ≠ []) :
    forwardPV M H (toks ++ suffix) none = forwardPV M H toks none := by
  have hm := prefixMask_causal none toks.length (toks.length + suffix.length)
  rw [← hc] at hm
  exact forwardPV_prefix inert_real M H toks suffix h0 hm

/-! ### range of the single-position evaluator -/

/-- `ModelWrapper.evaluate` returns a probability vector over all move ids (one entry per row
    of `move_proj`, each `> 0`, summing to 1) and a value strictly between −1 and 1. -/
theorem C16_evaluate_range (M : Model ℝ) (H : PVHead ℝ) (toks : List Nat)
    (hn : 0 < min H.moveProj.w.length H.moveProj.b.length) :
    ((evaluate M H toks).1.length = min H.moveProj.w.length H.moveProj.b.length) ∧
    (∀ p ∈ (evaluate M H toks).1, 0 < p) ∧
    (evaluate M H toks).1.sum = 1 ∧
    -1 < (evaluate M H toks).2 ∧ (evaluate M H toks).2 < 1 := by
  have hlen : (forwardPV M H toks none).2.length = min H.moveProj.w.length H.moveProj.b.length := by
    simp [forwardPV, PVHead.apply, Linear.apply]
  refine ⟨?_, ?_, ?_, ?_, ?_⟩
  · simp only [evaluate]
    rw [softmax_length, hlen]
  · exact softmax_pos _
  · apply softmax_sum
    intro h
    rw [h] at hlen
    simp only [List.length_nil] at hlen
    omega
  · exact Real.neg_one_lt_tanh _
  · exact Real.tanh_lt_one _

/-! ### non-vacuity: a concrete tiny model (1 layer, width 2, 2 heads of width 1, learned
    positions) on which the hypotheses of the theorems above are met -/

noncomputable def tinyLN : LayerNorm ℝ := ⟨[1, 2], [0, 1]⟩

noncomputable def tinyBlock : Block ℝ where
  attnLn := tinyLN
  inProj := ⟨[[1, 0], [0, 1], [1, 1], [1, -1], [2, 0], [0, 3]], [0, 0, 1, 0, 0, 1]⟩
  outProj := ⟨[[1, 2], [3, 4]], [0, 1]⟩
  mlpLn := tinyLN
  mlpUp := ⟨[[1, 0], [0, 1], [1, 1], [1, -1], [-1, 0], [0, -1], [2, 1], [1, 2]], [0, 0, 0, 0, 1, 1, 0, 0]⟩
  mlpDown := ⟨[[1, 0, 1, 0, 1, 0, 1, 0], [0, 1, 0, 1, 0, 1, 0, 1]], [0, 0]⟩

noncomputable def tinyModel (causal : Bool) : Model ℝ where
  nVocab := 3
  nCtx := 4
  nHead := 2
  dHead := 1
  causal := causal
  pos := .learned [[0, 0], [1, 0], [0, 1], [1, 1]]
  emb := [[1, 0], [0, 1], [1, 1]]
  blocks := [tinyBlock]

noncomputable def tinyPV : PVHead ℝ := ⟨tinyLN, ⟨[[1, 1]], [0]⟩, ⟨[[1, 0], [0, 1], [1, 1]], [0, 0, 1]⟩⟩

noncomputable def tinyText : TextHead ℝ := ⟨tinyLN, ⟨[[1, 0], [0, 1], [1, 1]], [0, 0, 1]⟩⟩

/-- torch accepts the padded row `[2,0] ++ [1,1]` with its mask (so `C16_padding_checked`
    is not vacuous), … -/
example : (tinyModel false).accepts ([2, 0] ++ [1, 1]) (some (padMask 2 2)) = true := by decide

example : ∃ out, forwardPV? (tinyModel false) tinyPV ([2, 0] ++ [1, 1]) (some (padMask 2 2)) = some out ∧
    forwardPV? (tinyModel false) tinyPV [2, 0] none = some out := by
  have h : forwardPV? (tinyModel false) tinyPV ([2, 0] ++ [1, 1]) (some (padMask [2, 0].length [1, 1].length)) =
      some (forwardPV (tinyModel false) tinyPV ([2, 0] ++ [1, 1]) (some (padMask 2 2))) := by
    unfold forwardPV?
    rw [if_pos (by decide)]
    rfl
  exact ⟨_, h, C16_padding_checked _ _ [2, 0] [1, 1] (by decide) _ h⟩

/-- … the real tokens `[2,0]` form a non-empty row (hypothesis of `C16_padding_policyValue`),
    and the padding mask really hides something: key 2 is visible without the mask and hidden
    with it. -/
example : allowed false none 0 2 = true ∧ allowed false (some (padMask 2 2)) 0 2 = false := by decide

example : forwardPV (tinyModel false) tinyPV ([2, 0] ++ [1, 1]) (some (padMask 2 2)) =
    forwardPV (tinyModel false) tinyPV [2, 0] none :=
  C16_padding_policyValue _ _ [2, 0] [1, 1] (by decide)

example : (forwardText (tinyModel false) tinyText ([2, 0] ++ [1]) (some (padMask 2 1))).take 2 =
    forwardText (tinyModel false) tinyText [2, 0] none :=
  C16_padding _ _ [2, 0] [1]

/-- a causal model exists and is accepted; query 0 does not see key 1 -/
example : (tinyModel true).causal = true ∧ (tinyModel true).accepts ([2, 0] ++ [1]) none = true ∧
    allowed true none 0 1 = false := by decide

example : (forwardText (tinyModel true) tinyText ([2, 0] ++ [1]) none).take 2 =
    forwardText (tinyModel true) tinyText [2, 0] none :=
  C16_causal _ _ [2, 0] [1] rfl

/-- the head of the tiny model has 3 move ids: hypothesis of `C16_evaluate_range` -/
example : 0 < min tinyPV.moveProj.w.length tinyPV.moveProj.b.length := by decide

example : (evaluate (tinyModel false) tinyPV [2, 0]).1.sum = 1 :=
  (C16_evaluate_range _ _ _ (by decide)).2.2.1

/-- a batch of two positions of different lengths with non-zero pad content -/
example : forwardPVBatch (tinyModel false) tinyPV [[2, 0] ++ [1], [1, 1, 0] ++ []]
    (some [padMask 2 1, padMask 3 0]) =
    [forwardPV (tinyModel false) tinyPV [2, 0] none, forwardPV (tinyModel false) tinyPV [1, 1, 0] none] :=
  C16_batch_padded _ _ [[2, 0], [1, 1, 0]] [[1], []] rfl (by decide)

/-- the call sites on rows of lengths 2 and 3 -/
example : extraInputs (encodeBatch [[2, 0], [1, 1, 0]]).2 = [padMask 2 1, padMask 3 0] ∧
    (serverBatch [[2, 0], [1, 1, 0]]).2 = [padMask 2 1, padMask 3 0] ∧
    (encodeBatch [[2, 0], [1, 1, 0]]).1 = [[2, 0, 0], [1, 1, 0]] := by decide

end Tak.C16

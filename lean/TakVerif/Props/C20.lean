/-
  C20 — dataset epochs are aligned permutations and streams are reproducible.

  Model: TakVerif/Model/Batch.lean (`gather`, `epochBatches`, `Ds.*` for `xformer.data.Dataset`;
  `catReplayBuffer`, `rbEpoch` for `tak.alphazero.data.ReplayBufferDataset`).
  `torch.randperm` and `torch.Generator` are the oracle `R : RNG G`; a drawn permutation enters the
  epoch theorems as `perm` with the hypothesis that it is a permutation of `range n` (the harness
  checks that hypothesis on every recorded draw).  A table is given by its columns, exactly as the
  code holds it (`v[perm]` per key); `rowAt cols i` is stored row `i` across all columns.
  All theorems: every number of rows (0 included), every number of columns, every batch size
  `b ≥ 1` (`range(0, n, 0)` raises in Python), every seed / generator, every truncation.
-/
import TakVerif.Lemmas.BatchEpoch
import TakVerif.Lemmas.BatchSession

namespace Tak.C20
open Tak.Batch Tak.BatchSpec Tak.BatchLemmas

/-! ## one epoch -/

/-- Fields of a row stay together: read row by row, an epoch is the stored rows in the order of
    the permutation — every emitted row is, in all its columns at once, stored row `perm[·]`;
    and row `j` of batch `k` is stored row `perm[k*b + j]`. -/
theorem C20_aligned {α : Type} (perm : List Nat) (b : Nat) (cols : List (List α))
    (hb : 1 ≤ b) (hcols : ∀ v ∈ cols, v.length = nRows cols)
    (hperm : perm.Perm (List.range (nRows cols))) :
    epochRows (epochBatches perm b cols) = perm.map (rowAt cols) ∧
    ∀ k bt, (epochBatches perm b cols)[k]? = some bt → ∀ j, j < nRows bt →
      ∃ i, perm[k * b + j]? = some i ∧ i < nRows cols ∧ rowAt bt j = rowAt cols i := by
  refine ⟨epochRows_eq perm b cols hb hcols hperm, ?_⟩
  intro k bt hbt j hj
  have hk : k < numBatches (nRows cols) b := by
    have : k < (epochBatches perm b cols).length := by
      rcases Nat.lt_or_ge k (epochBatches perm b cols).length with h | h
      · exact h
      · rw [List.getElem?_eq_none h] at hbt; cases hbt
    simpa [epochBatches] using this
  have hbt' : bt = (cols.map (gather · perm)).map fun v => (v.drop (k * b)).take b := by
    simp only [epochBatches, List.getElem?_map, List.getElem?_range hk, Option.map_some] at hbt
    exact (Option.some.inj hbt).symm
  have hne : cols ≠ [] := by
    intro e; subst e
    subst hbt'
    simp [nRows] at hj
  have hrows := epoch_batch_rows perm b cols (nRows cols) hne hcols hperm k
  rw [← hbt'] at hrows
  have h1 : (rowsOf bt (nRows bt))[j]? = some (rowAt bt j) := by
    simp [rowsOf, List.getElem?_range hj]
  rw [hrows, List.getElem?_map, slice_getElem?] at h1
  by_cases hjb : j < b
  · rw [if_pos hjb] at h1
    cases hp : perm[k * b + j]? with
    | none => rw [hp] at h1; cases h1
    | some i =>
      rw [hp] at h1
      refine ⟨i, rfl, perm_range_lt hperm i (List.mem_of_getElem? hp), ?_⟩
      exact (Option.some.inj h1).symm
  · rw [if_neg hjb] at h1; cases h1

/-- Every stored row comes out exactly once per epoch: the rows of the epoch's batches, one after
    the other, are a permutation (`List.Perm`) of the stored rows. -/
theorem C20_epoch_perm {α : Type} (perm : List Nat) (b : Nat) (cols : List (List α))
    (hb : 1 ≤ b) (hcols : ∀ v ∈ cols, v.length = nRows cols)
    (hperm : perm.Perm (List.range (nRows cols))) :
    (epochRows (epochBatches perm b cols)).Perm (rowsOf cols (nRows cols)) := by
  rw [(C20_aligned perm b cols hb hcols hperm).1]
  exact hperm.map _

/-- Batches have the configured size, only the last may be shorter: there are `⌈n/b⌉` batches;
    every column slice of batch `k` has `min b (n - k*b)` rows, which is `b` for every batch but
    the last and `n mod b` for the last when that is non-zero (`b` otherwise). -/
theorem C20_batch_sizes {α : Type} (perm : List Nat) (b : Nat) (cols : List (List α))
    (hb : 1 ≤ b) (hcols : ∀ v ∈ cols, v.length = nRows cols)
    (hperm : perm.Perm (List.range (nRows cols))) :
    (epochBatches perm b cols).length = numBatches (nRows cols) b ∧
    numBatches (nRows cols) b = nRows cols / b + (if nRows cols % b = 0 then 0 else 1) ∧
    (∀ k bt, (epochBatches perm b cols)[k]? = some bt → ∀ v ∈ bt,
      v.length = min b (nRows cols - k * b) ∧
      (k + 1 < numBatches (nRows cols) b → v.length = b) ∧
      (k + 1 = numBatches (nRows cols) b →
        v.length = if nRows cols % b = 0 then b else nRows cols % b)) ∧
    batchSizesOK (nRows cols) b (epochBatches perm b cols) = true := by
  have hlen : (epochBatches perm b cols).length = numBatches (nRows cols) b := by
    simp [epochBatches]
  have hlt := perm_range_lt hperm
  have hpl : perm.length = nRows cols := by simpa using hperm.length_eq
  have hsz : ∀ k bt, (epochBatches perm b cols)[k]? = some bt → ∀ v ∈ bt,
      v.length = min b (nRows cols - k * b) := by
    intro k bt hbt v hv
    have hk : k < numBatches (nRows cols) b := by
      rcases Nat.lt_or_ge k (epochBatches perm b cols).length with h | h
      · rw [← hlen]; exact h
      · rw [List.getElem?_eq_none h] at hbt; cases hbt
    simp only [epochBatches, List.getElem?_map, List.getElem?_range hk, Option.map_some] at hbt
    have hbt' := (Option.some.inj hbt).symm
    subst hbt'
    simp only [List.map_map, List.mem_map, Function.comp] at hv
    obtain ⟨c, hc, rfl⟩ := hv
    rw [slice_length, gather_length c perm (fun i hi => by rw [hcols c hc]; exact hlt i hi), hpl]
  have heq := numBatches_eq (nRows cols) b hb
  refine ⟨hlen, heq, ?_, ?_⟩
  · intro k bt hbt v hv
    have h0 := hsz k bt hbt v hv
    refine ⟨h0, ?_, ?_⟩
    · intro hk
      have := numBatches_mul_lt (nRows cols) b hb (k + 1) hk
      rw [Nat.add_mul, Nat.one_mul] at this
      rw [h0]; omega
    · intro hk
      have hdm := Nat.div_add_mod (nRows cols) b
      have hml := Nat.mod_lt (nRows cols) (show 0 < b by omega)
      rw [h0]
      by_cases hr : nRows cols % b = 0
      · rw [if_pos hr]
        rw [if_pos hr] at heq
        have hk' : k + 1 = nRows cols / b := by omega
        have : (k + 1) * b = nRows cols := by rw [hk', Nat.mul_comm]; omega
        rw [Nat.add_mul, Nat.one_mul] at this
        omega
      · rw [if_neg hr]
        rw [if_neg hr] at heq
        have hk' : k = nRows cols / b := by omega
        have : k * b + nRows cols % b = nRows cols := by rw [hk', Nat.mul_comm]; exact hdm
        omega
  · simp only [batchSizesOK, hlen, beq_self_eq_true, Bool.true_and, List.all_eq_true]
    intro x hx
    obtain ⟨bt, k⟩ := x
    have hk := List.mem_zipIdx hx
    simp only [beq_iff_eq]
    intro v hv
    have h1 : (epochBatches perm b cols)[k]? = some bt := by
      have := hk.2.2
      simp only [Nat.sub_zero] at this
      rw [List.getElem?_eq_getElem (by simpa using hk.2.1)]
      exact congrArg some this.symm
    exact hsz k bt h1 v hv


/-- … and on the batch lengths alone, for any table with at least one field: what the scale probe
    of the tie evaluates (`dataset sizes`) on datasets too large to spell out row by row. -/
theorem C20_batch_lengths {α : Type} (perm : List Nat) (b : Nat) (cols : List (List α))
    (hb : 1 ≤ b) (hcols : ∀ v ∈ cols, v.length = nRows cols)
    (hperm : perm.Perm (List.range (nRows cols))) (hne : cols ≠ []) :
    sizesOK (nRows cols) b ((epochBatches perm b cols).map batchLen) = true := by
  apply sizesOK_of_batchSizesOK _ _ _ (C20_batch_sizes perm b cols hb hcols hperm).2.2.2
  intro bt hbt
  simp only [epochBatches, List.mem_map, List.mem_range] at hbt
  obtain ⟨k, _, rfl⟩ := hbt
  cases cols with
  | nil => exact absurd rfl hne
  | cons c cs => simp

/-- The predicates the driver evaluates on implementation epochs during the failing-input search
    (every emitted row is a stored row; every stored row is emitted exactly once) hold of the
    model's epoch. -/
theorem C20_checkers {α : Type} [DecidableEq α] (perm : List Nat) (b : Nat) (cols : List (List α))
    (hb : 1 ≤ b) (hcols : ∀ v ∈ cols, v.length = nRows cols)
    (hperm : perm.Perm (List.range (nRows cols))) :
    alignedOK cols (epochBatches perm b cols) = true ∧ permOK cols (epochBatches perm b cols) = true := by
  have hrows := (C20_aligned perm b cols hb hcols hperm).1
  have hp := C20_epoch_perm perm b cols hb hcols hperm
  constructor
  · simp only [alignedOK, List.all_eq_true, List.contains_iff_mem]
    intro r hr
    exact hp.mem_iff.mp hr
  · simp only [permOK, Bool.and_eq_true, beq_iff_eq, List.all_eq_true]
    exact ⟨hp.length_eq, fun r _ => hp.count_eq r⟩

/-! ## the file dataset: the stream is a function of the seed -/

section stream
variable {α G : Type} (R : RNG G)

/-- The stream depends on the pickled attributes alone (file content, batch size, truncation,
    seed): epoch `e` is the epoch of the `e`-th permutation drawn from the generator seeded with
    `seed` — nothing else enters.  In particular equal seeds give equal streams. -/
theorem C20_deterministic (cfg : DsCfg α) (k : Nat) :
    Ds.stream R k (Ds.init R cfg) =
      (permSeq R (nRows (loadData cfg)) (R.manualSeed cfg.seed) k).map
        (fun perm => epochBatches perm cfg.batchSize (loadData cfg)) ∧
    ∀ ds₁ ds₂ : Ds α G, ds₁ = Ds.init R cfg → ds₂ = Ds.init R cfg →
      Ds.stream R k ds₁ = Ds.stream R k ds₂ := by
  refine ⟨stream_eq R k (Ds.init R cfg), ?_⟩
  intro ds₁ ds₂ h₁ h₂; rw [h₁, h₂]

/-- Fast-forwarding `n` epochs equals consuming `n` epochs: the same dataset state, hence the
    stream after `fastforward_epochs(n)` is the stream from the start with `n` epochs dropped. -/
theorem C20_fastforward (ds : Ds α G) (n k : Nat) :
    Ds.fastforward R n ds = Ds.after R n ds ∧
    Ds.stream R k (Ds.fastforward R n ds) = (Ds.stream R (n + k) ds).drop n := by
  refine ⟨fastforward_eq_after R n ds, ?_⟩
  rw [fastforward_eq_after, stream_add, List.drop_left' (stream_length R n ds)]

/-- A pickled and restored dataset restarts the stream: whatever number `m` of epochs was consumed
    before pickling, the restored dataset is the freshly constructed one and yields the stream
    from epoch 0. -/
theorem C20_pickle_restarts (cfg : DsCfg α) (m k : Nat) :
    Ds.setstate R (Ds.after R m (Ds.init R cfg)).getstate = Ds.init R cfg ∧
    Ds.stream R k (Ds.setstate R (Ds.after R m (Ds.init R cfg)).getstate) =
      Ds.stream R k (Ds.init R cfg) := by
  have h : (Ds.after R m (Ds.init R cfg)).getstate = cfg := by
    rw [after_eq]; rfl
  rw [h]; exact ⟨rfl, rfl⟩

/-- Truncation: with `batches = t` exactly the first `t * batch_size` stored rows are used (all of
    them when the file is shorter), in every epoch, and an epoch has `min t ⌈n/b⌉` batches. -/
theorem C20_truncation (cfg : DsCfg α) (t : Nat) (ht : cfg.batches = some t)
    (hb : 1 ≤ cfg.batchSize) :
    (Ds.init R cfg).data = cfg.file.map (·.take (t * cfg.batchSize)) ∧
    nRows (Ds.init R cfg).data = min (t * cfg.batchSize) (nRows cfg.file) ∧
    rowsOf (Ds.init R cfg).data (nRows (Ds.init R cfg).data) =
      (rowsOf cfg.file (nRows cfg.file)).take (t * cfg.batchSize) ∧
    (∀ ds, ds = Ds.init R cfg → ((ds.iter R).1).length = min t (numBatches (nRows cfg.file) cfg.batchSize)) := by
  have hdata : (Ds.init R cfg).data = cfg.file.map (·.take (t * cfg.batchSize)) := by
    simp [Ds.init, loadData, ht]
  have hn : nRows (Ds.init R cfg).data = min (t * cfg.batchSize) (nRows cfg.file) := by
    rw [hdata]
    cases cfg.file with
    | nil => simp [nRows]
    | cons v vs => simp [nRows, List.length_take]
  refine ⟨hdata, hn, ?_, ?_⟩
  · rw [hn, hdata]
    simp only [rowsOf, ← List.map_take, List.take_range]
    apply List.map_congr_left
    intro j hj
    have hj' := List.mem_range.mp hj
    simp only [rowAt, List.map_map]
    apply List.map_congr_left
    intro v _
    simp only [Function.comp, List.getElem?_take]
    rw [if_pos (by omega)]
  · intro ds hds
    subst hds
    have : ((Ds.init R cfg).iter R).1.length = numBatches (nRows (Ds.init R cfg).data) cfg.batchSize := by
      rw [iter_fst]; simp [epochBatches, Ds.init]
    rw [this, hn]
    have e1 := numBatches_eq (min (t * cfg.batchSize) (nRows cfg.file)) cfg.batchSize hb
    have e2 := numBatches_eq (nRows cfg.file) cfg.batchSize hb
    have hb0 : 0 < cfg.batchSize := by omega
    by_cases hle : t * cfg.batchSize ≤ nRows cfg.file
    · rw [Nat.min_eq_left hle] at e1 ⊢
      rw [Nat.mul_mod_left, if_pos rfl, Nat.mul_div_cancel _ hb0] at e1
      have : t ≤ nRows cfg.file / cfg.batchSize := (Nat.le_div_iff_mul_le hb0).mpr hle
      rw [e1, e2]; omega
    · have hlt : nRows cfg.file < t * cfg.batchSize := by omega
      rw [Nat.min_eq_right (by omega)]
      have h1 := numBatches_mul_lt (nRows cfg.file) cfg.batchSize hb
      have : numBatches (nRows cfg.file) cfg.batchSize ≤ t := by
        apply Nat.le_of_not_lt
        intro h
        have h2 := h1 t h
        omega
      omega

/-- Several epoch iterators over ONE dataset object, advanced in any interleaving with one another
    and with `fastforward_epochs` (a training loop suspended in the middle of an epoch while an
    evaluation hook makes its own pass; a second pass started before the first one is exhausted):
    the dataset has advanced by exactly the number of permutations drawn; every started iterator
    `j` owns one epoch of the *sequential* stream — the epoch of the draw that started it, no two
    iterators the same — and what `next(it_j)` has returned so far, followed by what it still
    holds, is exactly that epoch, in order.  In particular an exhausted iterator has yielded every
    batch of its epoch (hence, by `C20_epoch_perm`, each stored row exactly once), whatever
    happened on the same object in between. -/
theorem C20_interleaved (ds0 : Ds α G) (ops : List SessOp) :
    let r := Sess.run R (Sess.init ds0) ops
    r.1.ds = Ds.after R r.1.draws ds0 ∧
    (∀ (j : Nat) (it : EpochIter α), r.1.iters[j]? = some (some it) →
      it.epoch < r.1.draws ∧
      (Ds.stream R r.1.draws ds0)[it.epoch]? = some (batchesOf j r.2 ++ it.rest)) ∧
    (∀ (j k : Nat) (it it' : EpochIter α), j ≠ k →
      r.1.iters[j]? = some (some it) → r.1.iters[k]? = some (some it') → it.epoch ≠ it'.epoch) := by
  intro r
  have hinv : SessInv R ds0 r.1 := sessInv_run R ds0 ops _ (sessInv_init R ds0)
  refine ⟨hinv.ds_eq, ?_, hinv.distinct⟩
  intro j it hj
  have hst := hinv.started j it hj
  refine ⟨hst.1, ?_⟩
  have hy : it.yielded = batchesOf j r.2 := by
    have := yieldedOf_run R ops (Sess.init ds0) j
    have h0 : yieldedOf (Sess.init ds0 : Sess α G) j = [] := by simp [yieldedOf, Sess.init]
    rw [h0, List.nil_append] at this
    rw [← this]
    show it.yielded = yieldedOf r.1 j
    simp [yieldedOf, hj]
  rw [← hy, hst.2]
  -- epoch `e < draws` of the sequential stream
  obtain ⟨m, hm⟩ : ∃ m, r.1.draws = (it.epoch + 1) + m := ⟨r.1.draws - (it.epoch + 1), by omega⟩
  rw [hm, stream_add, List.getElem?_append_left (by rw [stream_length]; exact Nat.lt_succ_self _)]
  exact epochOf_eq_stream R ds0 it.epoch

/-- Whatever was done with the dataset object before — epochs consumed, iterators left half
    way, closed or dropped (`SessOp.close`), fast-forwards — the epoch a NEW iterator yields is
    the next one of the seed's stream: epoch number `draws`, where `draws` counts the permutations
    drawn so far.  An abandoned epoch is never handed out again and never shifts the stream. -/
theorem C20_abandoned_keeps_stream (ds0 : Ds α G) (ops : List SessOp) :
    let r := Sess.run R (Sess.init ds0) ops
    (Ds.stream R (r.1.draws + 1) ds0)[r.1.draws]? = some (r.1.ds.iter R).1 := by
  intro r
  have hinv : SessInv R ds0 r.1 := sessInv_run R ds0 ops _ (sessInv_init R ds0)
  rw [epochOf_eq_stream, hinv.ds_eq]
  rfl

/-- Giving an iterator up changes nothing but that iterator: the dataset, the number of draws and
    every other iterator are as they were, and the iterator itself yields nothing more. -/
theorem C20_close_step (s : Sess α G) (j : Nat) :
    (s.step R (.close j)).1.ds = s.ds ∧ (s.step R (.close j)).1.draws = s.draws ∧
    (s.step R (.close j)).1.iters = s.iters ∧
    ((s.step R (.close j)).1.step R (.next j)) = ((s.step R (.close j)).1, .stop) := by
  refine ⟨rfl, rfl, rfl, ?_⟩
  simp [Sess.step]

end stream

/-! ## the replay-buffer dataset -/

/-- Merging buffers of unequal widths: for row `r` of buffer `d` (which lands after all rows of the
    earlier buffers) the merged row is the original tokens followed by zeros up to the widest
    width, the merged mask is the original mask followed by `false` — so everything beyond the
    original width is masked out and the tokens under the mask are exactly the original real
    tokens — and every other column carries that row's cell at the same index. -/
theorem C20_cat_mask {α : Type} (pre : List (Buffer α)) (d : Buffer α) (post : List (Buffer α))
    (nKeys : Nat) (hok : ∀ x ∈ pre ++ d :: post, BufferOK x nKeys)
    (r : Nat) (row : List Nat) (m : List Bool)
    (hrow : d.positions[r]? = some row) (hm : d.mask[r]? = some m) :
    let flat := catReplayBuffer (pre ++ d :: post)
    let w := maxWidth (pre ++ d :: post)
    let i := (pre.flatMap (·.positions)).length + r
    d.width ≤ w ∧ row.length = d.width ∧ m.length = d.width ∧
    flat.positions[i]? = some (row ++ List.replicate (w - d.width) 0) ∧
    flat.mask[i]? = some (m ++ List.replicate (w - d.width) false) ∧
    (∀ tg, key ⟨row ++ List.replicate (w - d.width) 0, m ++ List.replicate (w - d.width) false, tg⟩ =
           key ⟨row, m, tg⟩) ∧
    (∀ c, c < nKeys → ∃ col, flat.others[c]? = some col ∧ col[i]? = d.others[c]?.bind (·[r]?)) ∧
    catMaskOK (pre ++ d :: post) flat = true := by
  intro flat w i
  have hr : r < d.positions.length := by
    rcases Nat.lt_or_ge r d.positions.length with h | h
    · exact h
    · rw [List.getElem?_eq_none h] at hrow; cases hrow
  have okd := hok d (by simp)
  obtain ⟨h1, h2, h3, _, h5⟩ := cat_rows pre d post nKeys hok r hr
  have hrl : row.length = d.width := okd.posW _ (List.mem_of_getElem? hrow)
  have hml : m.length = d.width := okd.maskW _ (List.mem_of_getElem? hm)
  refine ⟨h1, hrl, hml, ?_, ?_, ?_, h5, ?_⟩
  · rw [h2, hrow]; rfl
  · rw [h3, hm]; rfl
  · intro tg; exact key_pad_false row m _ tg (by rw [hrl, hml])
  · exact catMaskOK_cat _ nKeys hok

/-- One epoch of the replay-buffer dataset: positions, mask and every other column of the merged
    buffer are permuted by the same permutation and cut at the same places — row `j` of batch `k`
    is, in every field, merged row `perm[k*b + j]`; the emitted position rows are a permutation of
    the merged ones; batch `k` has `min b (n - k*b)` rows. -/
theorem C20_rb_epoch {α : Type} (perm : List Nat) (b : Nat) (flat : FlatBuffer α) (hb : 1 ≤ b)
    (hmask : flat.mask.length = flat.positions.length)
    (hoth : ∀ v ∈ flat.others, v.length = flat.positions.length)
    (hperm : perm.Perm (List.range flat.positions.length)) :
    (rbEpoch perm b flat).length = numBatches flat.positions.length b ∧
    ((rbEpoch perm b flat).flatMap (·.positions)).Perm flat.positions ∧
    ∀ k bt, (rbEpoch perm b flat)[k]? = some bt →
      bt.positions.length = min b (flat.positions.length - k * b) ∧
      bt.mask.length = bt.positions.length ∧
      (∀ v ∈ bt.others, v.length = bt.positions.length) ∧
      ∀ j, j < b → ∀ i, perm[k * b + j]? = some i →
        bt.positions[j]? = flat.positions[i]? ∧ bt.mask[j]? = flat.mask[i]? ∧
        rowAt bt.others j = rowAt flat.others i := by
  have hlt := perm_range_lt hperm
  have hpl : perm.length = flat.positions.length := by simpa using hperm.length_eq
  refine ⟨by simp [rbEpoch], ?_, ?_⟩
  · have h1 : (rbEpoch perm b flat).flatMap (·.positions) =
        (chunks b flat.positions.length (gather flat.positions perm)).flatten := by
      simp [rbEpoch, chunks, List.flatMap_def, List.map_map, Function.comp_def]
    rw [h1, flatten_chunks b _ _ hb (by rw [gather_length _ _ hlt, hpl])]
    exact gather_perm _ _ hperm
  · intro k bt hbt
    have hk : k < numBatches flat.positions.length b := by
      rcases Nat.lt_or_ge k (rbEpoch perm b flat).length with h | h
      · simpa [rbEpoch] using h
      · rw [List.getElem?_eq_none h] at hbt; cases hbt
    simp only [rbEpoch, List.getElem?_map, List.getElem?_range hk, Option.map_some] at hbt
    have hbt' := (Option.some.inj hbt).symm
    subst hbt'
    have hltm : ∀ i ∈ perm, i < flat.mask.length := by rw [hmask]; exact hlt
    refine ⟨?_, ?_, ?_, ?_⟩
    · simp only [slice_length, gather_length _ _ hlt, hpl]
    · simp only [slice_length, gather_length _ _ hlt, gather_length _ _ hltm]
    · intro v hv
      simp only [List.map_map, List.mem_map, Function.comp] at hv
      obtain ⟨c, hc, rfl⟩ := hv
      simp only [slice_length, gather_length _ _ hlt,
        gather_length c perm (fun i hi => by rw [hoth c hc]; exact hlt i hi)]
    · intro j hj i hi
      refine ⟨?_, ?_, ?_⟩
      · simp only [slice_getElem?, if_pos hj, gather_getElem? _ _ hlt, hi, Option.bind_some]
      · simp only [slice_getElem?, if_pos hj, gather_getElem? _ _ hltm, hi, Option.bind_some]
      · simp only [rowAt, List.map_map]
        apply List.map_congr_left
        intro v hv
        simp only [Function.comp, slice_getElem?, if_pos hj,
          gather_getElem? v perm (fun i hi => by rw [hoth v hv]; exact hlt i hi), hi, Option.bind_some]

/-! ## non-vacuity: the hypotheses are met by concrete, non-trivial values -/

section examples

/-- five rows, two fields (an id and its square), batch size 2 (does not divide 5) -/
def exCols : List (List Nat) := [[10, 11, 12, 13, 14], [100, 121, 144, 169, 196]]
def exPerm : List Nat := [3, 0, 4, 1, 2]

example : (1 ≤ 2) ∧ (∀ v ∈ exCols, v.length = nRows exCols) ∧ exPerm.Perm (List.range (nRows exCols)) := by
  refine ⟨by decide, by decide, by decide⟩

/-- `C20_aligned`, `C20_epoch_perm`, `C20_batch_sizes` on it: sizes 2, 2, 1; ids and squares together -/
example : epochBatches exPerm 2 exCols =
    [[[13, 10], [169, 100]], [[14, 11], [196, 121]], [[12], [144]]] := by decide +kernel

/-- a toy generator: state `g`, `randperm n` rotates `0..n-1` by `g` and advances the state -/
def exRNG : RNG Nat :=
  { manualSeed := fun s => s % 7,
    randperm := fun n g => ((List.range n).map (fun i => (i + g) % n), g + 1) }

def exCfg : DsCfg Nat := { file := exCols, batchSize := 2, batches := some 2, seed := 9 }

/-- `C20_truncation`: 2 batches of 2 → the first 4 rows only, 2 batches per epoch;
    `C20_deterministic` / `C20_fastforward` / `C20_pickle_restarts`: the stream of `exCfg` -/
example : Ds.stream exRNG 2 (Ds.init exRNG exCfg) =
    [[[[12, 13], [144, 169]], [[10, 11], [100, 121]]],
     [[[13, 10], [169, 100]], [[11, 12], [121, 144]]]] := by decide +kernel

example : Ds.stream exRNG 1 (Ds.fastforward exRNG 1 (Ds.init exRNG exCfg)) =
    [[[[13, 10], [169, 100]], [[11, 12], [121, 144]]]] := by decide +kernel

/-- `C20_interleaved`: two iterators over one dataset, the second started and exhausted while
    the first is suspended after one batch, with a fast-forward in between: the first still
    finishes epoch 0, the second yields epoch 2 -/
example :
    let r := Sess.run exRNG (Sess.init (Ds.init exRNG exCfg))
      [.mk, .next 0, .mk, .ff 1, .next 1, .next 1, .next 1, .next 0, .next 0]
    batchesOf 0 r.2 = [[[12, 13], [144, 169]], [[10, 11], [100, 121]]] ∧
    batchesOf 1 r.2 = (Ds.stream exRNG 3 (Ds.init exRNG exCfg))[2]?.getD [] ∧
    r.1.draws = 3 := by decide +kernel

/-- an iterator abandoned after one batch (and one closed before it ever started): the next two
    iterators yield epochs 1 and 2 of the stream, nothing is replayed -/
example :
    let r := Sess.run exRNG (Sess.init (Ds.init exRNG exCfg))
      [.mk, .next 0, .close 0, .next 0, .mk, .close 1, .next 1, .mk, .next 2, .next 2, .next 2, .mk, .next 3]
    batchesOf 0 r.2 = [[[12, 13], [144, 169]]] ∧ batchesOf 1 r.2 = [] ∧
    batchesOf 2 r.2 = (Ds.stream exRNG 3 (Ds.init exRNG exCfg))[1]?.getD [] ∧
    r.1.draws = 3 := by decide +kernel

/-- two replay-buffer batches of widths 2 and 3 with one other column -/
def exBufs : List (Buffer Nat) :=
  [{ positions := [[7, 8], [7, 0]], mask := [[true, true], [true, false]], width := 2, others := [[1, 2]] },
   { positions := [[7, 8, 9]], mask := [[true, true, true]], width := 3, others := [[3]] }]

example : ∀ x ∈ exBufs, BufferOK x 1 := by
  intro x hx
  simp only [exBufs, List.mem_cons, List.not_mem_nil, or_false] at hx
  rcases hx with rfl | rfl <;> constructor <;> decide

/-- `C20_cat_mask` on it: narrower rows are zero-padded and the padding is masked out -/
example : (catReplayBuffer exBufs).positions = [[7, 8, 0], [7, 0, 0], [7, 8, 9]] ∧
    (catReplayBuffer exBufs).mask = [[true, true, false], [true, false, false], [true, true, true]] ∧
    (catReplayBuffer exBufs).others = [[1, 2, 3]] := by decide +kernel

end examples

end Tak.C20

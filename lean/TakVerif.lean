import TakVerif.Model.Core
import TakVerif.Model.Move
import TakVerif.Spec.Rules
import TakVerif.Lemmas.Board
import TakVerif.Props.C01
import TakVerif.Props.C06

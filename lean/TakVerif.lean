import TakVerif.Model.Core
import TakVerif.Model.Move
import TakVerif.Spec.Rules

#!/usr/bin/env python3
"""Verify and file a seeded (mutation) change.

usage: tools/seed_verify.py <prop> <seed_id> <patch.diff> <demo.py> [--notes notes.md] [--tier quick]

1. scratch worktree of /repo HEAD: apply the patch, run the baseline test suite (must be 35 passed),
   run the demo (must FAIL), revert, run the demo (must PASS);
2. apply the patch to /repo itself, run ./check <prop> (records exit status and VIOLATION lines), undo;
3. write /verif/seeded/<seed_id>/{patch.diff, demo.py, meta.json}.
Nothing is ever committed to /repo.
"""
import argparse
import json
import os
import re
import shutil
import subprocess
import sys
import time

VERIF = os.path.dirname(os.path.dirname(os.path.abspath(__file__)))
REPO = "/repo"
ENVDIR = os.path.join(VERIF, "seeded", "_env")


def sh(cmd, cwd=None, env=None, timeout=3600):
    r = subprocess.run(cmd, shell=True, cwd=cwd, env=env, stdout=subprocess.PIPE, stderr=subprocess.STDOUT, text=True, timeout=timeout)
    return r.returncode, r.stdout


def run_demo(wt, demo, needs_ext):
    e = dict(os.environ)
    parts = [ENVDIR]
    if needs_ext:
        parts.append(os.path.join(wt, ".ext"))
    parts.append(os.path.join(wt, "python"))
    e["PYTHONPATH"] = os.pathsep.join(parts)
    e["OMP_NUM_THREADS"] = "2"
    return sh("/venv/bin/python %s" % demo, cwd=wt, env=e, timeout=1800)


def main():
    ap = argparse.ArgumentParser()
    ap.add_argument("prop")
    ap.add_argument("seed_id")
    ap.add_argument("patch")
    ap.add_argument("demo")
    ap.add_argument("--notes")
    ap.add_argument("--tier", default="quick")
    ap.add_argument("--also", default="", help="comma-separated other properties whose check should also be run")
    ap.add_argument("--skip-scratch", action="store_true")
    ap.add_argument("--via-worktree", action="store_true", help="run the checks with VERIF_REPO=<scratch worktree with the patch> instead of patching /repo (used while other work reads /repo)")
    a = ap.parse_args()

    patch = os.path.abspath(a.patch)
    demo = os.path.abspath(a.demo)
    meta = {"property": a.prop, "seed_id": a.seed_id, "verified_at": time.strftime("%Y-%m-%d %H:%M:%S")}
    text = open(patch).read()
    needs_ext = bool(re.search(r"tak_ext|mcts|self_play|trainer|alphazero|server", open(demo).read()))
    touches_cpp = "tak.cpp" in text
    meta["repo_head"] = sh("git -C %s rev-parse --short HEAD" % REPO)[1].strip()

    if not a.skip_scratch:
        wt = "/tmp/sv-%s" % a.seed_id
        sh("git -C %s worktree remove --force %s" % (REPO, wt))
        rc, out = sh("git -C %s worktree add --detach %s HEAD" % (REPO, wt))
        assert rc == 0, out
        try:
            if needs_ext:
                rc, out = sh("%s/build_ext.sh %s" % (ENVDIR, wt))
                assert rc == 0, out
            # unchanged: demo must pass
            rc0, out0 = run_demo(wt, demo, needs_ext)
            meta["demo_unchanged_exit"] = rc0
            rc, out = sh("git apply %s" % patch, cwd=wt)
            assert rc == 0, "patch does not apply: " + out
            if touches_cpp and needs_ext:
                rc, out = sh("%s/build_ext.sh %s" % (ENVDIR, wt))
                assert rc == 0, out
            rc, out = sh("/venv/bin/python -m pytest -q -p no:cacheprovider --timeout=900 --continue-on-collection-errors 2>&1 | tail -3", cwd=wt)
            meta["tests_with_change"] = out.strip().splitlines()[-1] if out.strip() else ""
            rc1, out1 = run_demo(wt, demo, needs_ext)
            meta["demo_changed_exit"] = rc1
            meta["demo_changed_output_tail"] = out1[-600:]
            meta["demo_unchanged_output_tail"] = out0[-300:]
        finally:
            sh("git -C %s worktree remove --force %s" % (REPO, wt))
        ok = meta["demo_unchanged_exit"] == 0 and meta["demo_changed_exit"] != 0 and "35 passed" in meta["tests_with_change"]
        meta["confirmed"] = ok
        print("scratch verification:", json.dumps({k: meta[k] for k in ("tests_with_change", "demo_unchanged_exit", "demo_changed_exit", "confirmed")}))
        if not ok:
            print(json.dumps(meta, indent=1))
            print("NOT CONFIRMED — not filed")
            return 1

    # run our checks against it
    results = {}
    props = [a.prop] + [p for p in a.also.split(",") if p]
    if a.via_worktree:
        wt2 = "/tmp/svr-%s" % a.seed_id
        sh("git -C %s worktree remove --force %s" % (REPO, wt2))
        rc, out = sh("git -C %s worktree add --detach %s HEAD" % (REPO, wt2))
        assert rc == 0, out
        try:
            rc, out = sh("git apply %s" % patch, cwd=wt2)
            assert rc == 0, out
            e = dict(os.environ)
            e["VERIF_REPO"] = wt2
            e["VERIF_EVIDENCE_DIR"] = "/tmp/seed-evidence"
            for prop in props:
                t0 = time.time()
                r = subprocess.run("./check %s --tier %s" % (prop, a.tier), shell=True, cwd=VERIF, env=e, stdout=subprocess.PIPE, stderr=subprocess.STDOUT, text=True, timeout=7200)
                rc, out = r.returncode, r.stdout
                vio = [l for l in out.splitlines() if l.startswith("VIOLATION") or l.startswith("KNOWN-FINDING")]
                results[prop] = {"exit": rc, "lines": vio[:6], "wall_s": round(time.time() - t0, 1), "detail": [l for l in out.splitlines() if l.startswith("  ")][:6], "how": "VERIF_REPO=scratch worktree with the patch"}
                print(prop, "exit", rc, vio[:3])
        finally:
            sh("git -C %s worktree remove --force %s" % (REPO, wt2))
    else:
        st = sh("git -C %s status --porcelain --untracked-files=no" % REPO)[1].strip()
        assert st == "", "/repo has uncommitted changes: " + st
        try:
            rc, out = sh("git -C %s apply %s" % (REPO, patch))
            assert rc == 0, out
            for prop in props:
                t0 = time.time()
                rc, out = sh("./check %s --tier %s" % (prop, a.tier), cwd=VERIF, timeout=7200)
                vio = [l for l in out.splitlines() if l.startswith("VIOLATION") or l.startswith("KNOWN-FINDING")]
                results[prop] = {"exit": rc, "lines": vio[:6], "wall_s": round(time.time() - t0, 1), "detail": [l for l in out.splitlines() if l.startswith("  ")][:6], "how": "git -C /repo apply; ./check; git -C /repo checkout -- ."}
                print(prop, "exit", rc, vio[:3])
        finally:
            sh("git -C %s checkout -- ." % REPO)
    meta["checks"] = results
    meta["caught_by"] = [p for p, r in results.items() if r["exit"] == 1]
    d = os.path.join(VERIF, "seeded", a.seed_id)
    os.makedirs(d, exist_ok=True)
    def cp(src, dst):
        if os.path.abspath(src) != os.path.abspath(dst):
            shutil.copy(src, dst)

    cp(patch, os.path.join(d, "patch.diff"))
    cp(demo, os.path.join(d, "demo.py"))
    if a.notes and os.path.exists(a.notes):
        cp(a.notes, os.path.join(d, "notes.md"))
        meta["needs_to_manifest"] = "see notes.md"
    meta["what_i_ran"] = "tools/seed_verify.py: baseline pytest on a scratch worktree with the patch; demo with and without the patch (PYTHONPATH=seeded/_env:<wt>/.ext:<wt>/python); ./check %s --tier %s with the patch applied to /repo, then git checkout -- ." % (a.prop, a.tier)
    # keep earlier meta fields when only re-running the checks
    mp = os.path.join(d, "meta.json")
    if a.skip_scratch and os.path.exists(mp):
        old = json.load(open(mp))
        old.update({k: v for k, v in meta.items() if k in ("checks", "caught_by", "repo_head", "verified_at")})
        meta = old
    json.dump(meta, open(mp, "w"), indent=1)
    # restore evidence produced on the mutated tree? evidence must come from the unchanged tree: caller re-runs check.
    print("filed:", d, "caught_by:", meta["caught_by"])
    return 0


if __name__ == "__main__":
    sys.exit(main())

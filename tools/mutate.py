#!/usr/bin/env python3
"""First-order mutation sweep over the Python files the properties are anchored in.

usage: tools/mutate.py [-n N] [-j J] [--seed S] [--files f1,f2] [--out design/MUTATION.jsonl]

For N sampled mutants (comparison / boolean / arithmetic operator replacement, off-by-one constants
and slice bounds, negated conditions, deleted statements): apply it in a scratch worktree of /repo,
run the repository's own test suite (a mutant the 35 tests kill is of no interest), then run the quick
checks of the properties anchored in that file (VERIF_REPO=<worktree>) until one reports a VIOLATION.
Survivors are either equivalent mutants or blind spots of the checks; they are listed for review.
Nothing here is evidence for a property: it is a search for holes in the tie.
"""
import argparse
import ast
import copy
import json
import os
import random
import subprocess
import sys
import time
from concurrent.futures import ThreadPoolExecutor

VERIF = os.path.dirname(os.path.dirname(os.path.abspath(__file__)))
REPO = "/repo"

CMP = {ast.Lt: ast.LtE, ast.LtE: ast.Lt, ast.Gt: ast.GtE, ast.GtE: ast.Gt, ast.Eq: ast.NotEq, ast.NotEq: ast.Eq,
       ast.In: ast.NotIn, ast.NotIn: ast.In, ast.Is: ast.IsNot, ast.IsNot: ast.Is}
BIN = {ast.Add: ast.Sub, ast.Sub: ast.Add, ast.Mult: ast.FloorDiv, ast.FloorDiv: ast.Mult, ast.Mod: ast.FloorDiv}


def sites(tree):
    """list of (kind, node path) where node path = index in ast.walk order"""
    out = []
    for i, node in enumerate(ast.walk(tree)):
        if isinstance(node, ast.Compare):
            for k, op in enumerate(node.ops):
                if type(op) in CMP:
                    out.append(("cmp", i, k))
        elif isinstance(node, ast.BoolOp):
            out.append(("bool", i, 0))
        elif isinstance(node, ast.UnaryOp) and isinstance(node.op, ast.Not):
            out.append(("not", i, 0))
        elif isinstance(node, ast.BinOp) and type(node.op) in BIN:
            out.append(("bin", i, 0))
        elif isinstance(node, ast.Constant) and isinstance(node.value, bool):
            out.append(("boolconst", i, 0))
        elif isinstance(node, ast.Constant) and isinstance(node.value, int) and not isinstance(node.value, bool) and abs(node.value) <= 4096:
            out.append(("int+1", i, 0))
            out.append(("int-1", i, 0))
        elif isinstance(node, (ast.If, ast.While)):
            out.append(("negcond", i, 0))
        elif isinstance(node, ast.Slice):
            if node.lower is not None:
                out.append(("slice-lower", i, 0))
            if node.upper is not None:
                out.append(("slice-upper", i, 0))
        elif isinstance(node, (ast.Assign, ast.AugAssign, ast.Expr)) and not (isinstance(node, ast.Expr) and isinstance(node.value, ast.Constant)):
            out.append(("delete", i, 0))
    return out


def apply(tree, site):
    kind, idx, k = site
    tree = copy.deepcopy(tree)
    nodes = list(ast.walk(tree))
    node = nodes[idx]
    line = getattr(node, "lineno", 0)
    before = ast.unparse(node)[:120]
    if kind == "cmp":
        node.ops[k] = CMP[type(node.ops[k])]()
    elif kind == "bool":
        node.op = ast.Or() if isinstance(node.op, ast.And) else ast.And()
    elif kind == "not":
        # replace `not x` by `x`: mutate in place into a no-op UnaryOp (+ is wrong for bools) -> use bool(x)
        node.op = ast.Not()
        node.operand = ast.UnaryOp(op=ast.Not(), operand=node.operand)
    elif kind == "bin":
        node.op = BIN[type(node.op)]()
    elif kind == "boolconst":
        node.value = not node.value
    elif kind == "int+1":
        node.value = node.value + 1
    elif kind == "int-1":
        node.value = node.value - 1
    elif kind == "negcond":
        node.test = ast.UnaryOp(op=ast.Not(), operand=node.test)
    elif kind == "slice-lower":
        node.lower = ast.BinOp(left=node.lower, op=ast.Add(), right=ast.Constant(1))
    elif kind == "slice-upper":
        node.upper = ast.BinOp(left=node.upper, op=ast.Sub(), right=ast.Constant(1))
    elif kind == "delete":
        # replace the statement by `pass` in its parent body
        for parent in nodes:
            for field in ("body", "orelse", "finalbody"):
                body = getattr(parent, field, None)
                if isinstance(body, list) and node in body:
                    body[body.index(node)] = ast.Pass()
    ast.fix_missing_locations(tree)
    after = ast.unparse(nodes[idx])[:120] if kind != "delete" else "pass"
    return tree, line, before, after


def sh(cmd, cwd=None, env=None, timeout=900):
    try:
        r = subprocess.run(cmd, shell=True, cwd=cwd, env=env, stdout=subprocess.PIPE, stderr=subprocess.STDOUT, text=True, timeout=timeout)
        return r.returncode, r.stdout
    except subprocess.TimeoutExpired:
        return 124, "timeout"


def main():
    ap = argparse.ArgumentParser()
    ap.add_argument("-n", type=int, default=60)
    ap.add_argument("-j", type=int, default=4)
    ap.add_argument("--seed", type=int, default=1)
    ap.add_argument("--files", default="")
    ap.add_argument("--out", default=os.path.join(VERIF, "design", "MUTATION.jsonl"))
    a = ap.parse_args()
    props = [json.loads(l) for l in open(os.path.join(VERIF, "properties.jsonl"))]
    fmap = {}
    for p in props:
        for f in p["anchors"]["files"]:
            if f.endswith(".py"):
                fmap.setdefault(f, []).append(p["id"])
    files = [f for f in fmap if not a.files or f in a.files.split(",")]
    rng = random.Random(a.seed)
    pool = []
    for f in sorted(files):
        src = open(os.path.join(REPO, f)).read()
        tree = ast.parse(src)
        for s in sites(tree):
            pool.append((f, s))
    rng.shuffle(pool)
    pool = pool[: a.n]
    print("%d mutation sites sampled out of %d files" % (len(pool), len(files)), flush=True)

    def worker(job):
        wid, items = job
        wt = "/tmp/mut-%d" % wid
        sh("git -C %s worktree remove --force %s" % (REPO, wt))
        rc, out = sh("git -C %s worktree add --detach %s HEAD" % (REPO, wt))
        res = []
        try:
            for f, site in items:
                src = open(os.path.join(REPO, f)).read()
                try:
                    tree, line, before, after = apply(ast.parse(src), site)
                    new = ast.unparse(tree) + "\n"
                except Exception as e:
                    continue
                rec = {"file": f, "line": line, "op": site[0], "before": before, "after": after}
                open(os.path.join(wt, f), "w").write(new)
                t0 = time.time()
                rc, out = sh("/venv/bin/python -m pytest -q -p no:cacheprovider --timeout=300 --continue-on-collection-errors 2>&1 | tail -3", cwd=wt, timeout=900)
                last = out.strip().splitlines()[-1] if out.strip() else ""
                if "35 passed" not in last:
                    rec["outcome"] = "killed-by-tests"
                else:
                    rec["outcome"] = "SURVIVED"
                    rec["checks"] = {}
                    e = dict(os.environ, VERIF_REPO=wt, VERIF_EVIDENCE_DIR="/tmp/mut-evidence-%d" % wid)
                    for pid in fmap[f]:
                        rc, out = sh("./check %s --tier quick" % pid, cwd=VERIF, env=e, timeout=900)
                        rec["checks"][pid] = rc
                        if rc == 1:
                            rec["outcome"] = "killed-by-" + pid
                            break
                        if rc not in (0, 1):
                            rec["outcome"] = "machinery-exit-%d-%s" % (rc, pid)
                rec["wall_s"] = round(time.time() - t0, 1)
                sh("git checkout -- .", cwd=wt)
                res.append(rec)
                print(json.dumps(rec), flush=True)
        finally:
            sh("git -C %s worktree remove --force %s" % (REPO, wt))
        return res

    jobs = [(w, pool[w :: a.j]) for w in range(a.j)]
    allres = []
    with ThreadPoolExecutor(a.j) as ex:
        for r in ex.map(worker, jobs):
            allres += r
    with open(a.out, "w") as fh:
        for r in allres:
            fh.write(json.dumps(r) + "\n")
    tally = {}
    for r in allres:
        k = r["outcome"].split("-by-")[0] if r["outcome"].startswith("killed") else r["outcome"]
        tally[k] = tally.get(k, 0) + 1
    print("summary:", tally)


if __name__ == "__main__":
    main()

#!/usr/bin/env python3
"""Run every claimed check against a harmless rewrite (VERIF_REPO = scratch worktree with the patch)
and record the outcomes in seeded/<id>/meta.json.  usage: tools/harmless_verify.py <id> [-j N]"""
import json, os, subprocess, sys, time
from concurrent.futures import ThreadPoolExecutor
VERIF = os.path.dirname(os.path.dirname(os.path.abspath(__file__)))
sid = sys.argv[1]
j = int(sys.argv[3]) if len(sys.argv) > 3 else 4
d = os.path.join(VERIF, "seeded", sid)
wt = "/tmp/hv-" + sid
subprocess.run("git -C /repo worktree remove --force %s" % wt, shell=True, capture_output=True)
subprocess.run("git -C /repo worktree add --detach %s HEAD" % wt, shell=True, check=True, capture_output=True)
try:
    subprocess.run("git apply %s/patch.diff" % d, shell=True, cwd=wt, check=True)
    man = json.load(open(os.path.join(VERIF, "MANIFEST.json")))
    env = dict(os.environ, VERIF_REPO=wt, VERIF_EVIDENCE_DIR="/tmp/seed-evidence")
    def run(c):
        t0 = time.time()
        r = subprocess.run(c["quick_cmd"], shell=True, cwd=VERIF, env=env, stdout=subprocess.PIPE, stderr=subprocess.STDOUT, text=True)
        return c["property_id"], r.returncode, round(time.time() - t0, 1), [l for l in r.stdout.splitlines() if l.startswith("VIOLATION")][:3]
    res = {}
    with ThreadPoolExecutor(j) as ex:
        for pid, rc, dt, lines in ex.map(run, man["checks"]):
            res[pid] = {"exit": rc, "wall_s": dt, "lines": lines}
            print(pid, rc, dt, lines)
finally:
    subprocess.run("git -C /repo worktree remove --force %s" % wt, shell=True, capture_output=True)
mp = os.path.join(d, "meta.json")
m = json.load(open(mp))
m["checks"] = res
m["all_silent"] = all(v["exit"] == 0 for v in res.values())
m["repo_head"] = subprocess.run("git -C /repo rev-parse --short HEAD", shell=True, capture_output=True, text=True).stdout.strip()
json.dump(m, open(mp, "w"), indent=1)
print("all silent:", m["all_silent"])

#!/usr/bin/env python3
"""Regenerates MANIFEST.json from the table below (keeps it valid at all times)."""
import json, os, sys

HERE = os.path.dirname(os.path.dirname(os.path.abspath(__file__)))

# property -> (technique, level text, level note, design ref)
CLAIMED = {
    "C01": (
        "Lean 4 proof that the move model refines a declarative rules spec + exhaustive-per-position behavioural correspondence with Position.move",
        "Machine-checked theorems (Props/C01.lean) that Impl.move, a line-by-line model of Position.move/_move_place/_move_slide, "
        "accepts exactly the moves Rules.Legal allows and returns exactly Rules.result, for every board size >= 1, every board and every "
        "move in Z x Z x type x Option(List Z); the model is tied to /repo on every run by running every well-formed move of the size plus an "
        "ill-formed stream on sampled positions through both and diffing.",
        "Trusted: Lean kernel + {propext, Classical.choice, Quot.sound}; the correspondence harness and driver parser/printer; "
        "CPython list/slice/attrs semantics are modelled, not verified. Tie is sampled over positions (exhaustive over moves per position).",
        "5 C01",
    ),
}

ALL = ["C%02d" % i for i in range(1, 21)]
PENDING_REASON = "check not built yet at this commit (construction in progress, see DESIGN.md section 9); not claimed until its model, theorems and tie exist"


def main():
    checks = []
    for pid, (tech, text, note, ref) in CLAIMED.items():
        checks.append(
            {
                "property_id": pid,
                "quick_cmd": "./check %s --tier quick" % pid,
                "thorough_cmd": "./check %s --tier thorough" % pid,
                "evidence_file": "evidence/%s.json" % pid,
                "replay_cmd_template": "./check %s --replay {path}" % pid,
                "engine": "lean4-model+correspondence",
                "level_claimed": {"category": "proof", "text": text, "design_ref": ref},
                "level_note": note,
                "technique": tech,
            }
        )
    man = {
        "version": 1,
        "setup_cmd": "./setup.sh",
        "hooks": {
            "guard": "NELHAGE_TAKTICIAN_PYTHON_VERIF",
            "enable": "no source hooks are needed: the harness observes /repo/python from outside (wrappers, stubs, virtual-time loop); the guard variable is set by the harness but read by nothing in /repo",
            "baseline_off_cmd": "cd /repo && /venv/bin/python -m pytest -ra -q -p no:cacheprovider --timeout=900 --continue-on-collection-errors",
            "source_commits": [],
            "add_only": True,
        },
        "engines": [
            {
                "name": "lean4-model+correspondence",
                "path": "lean/ (model, specs, theorems, native driver) + harness/ (correspondence, failing-input search)",
                "serves_properties": sorted(CLAIMED),
                "kind_free_text": "hand-written Lean 4 model with machine-checked theorems; tied to /repo by behavioural correspondence on every run",
            }
        ],
        "checks": checks,
        "notes": "See DESIGN.md. A broken proof or correspondence triggers a failing-input search on the real code; KNOWN_FINDINGS lists fixed/known defects.",
        "not_applicable": [{"property_id": p, "reason": PENDING_REASON} for p in ALL if p not in CLAIMED],
    }
    with open(os.path.join(HERE, "MANIFEST.json"), "w") as f:
        json.dump(man, f, indent=1)
        f.write("\n")


if __name__ == "__main__":
    main()

#!/usr/bin/env python3
"""Regenerates MANIFEST.json from the table below (keeps it valid at all times)."""
import json, os, sys

HERE = os.path.dirname(os.path.dirname(os.path.abspath(__file__)))

# property -> (technique, level text, level note, design ref)
T = "Trusted: Lean 4.33.0 kernel + axioms {propext, Classical.choice, Quot.sound} (audited per theorem on every run); the correspondence harness and the driver's parser/printer; "

PLANNED = {
    "C01": (
        "Lean 4 proof that the move model refines a declarative rules spec + per-position-exhaustive behavioural correspondence with Position.move",
        "Machine-checked theorems (Props/C01.lean): Impl.move, a line-by-line model of Position.move/_move_place/_move_slide, accepts exactly the moves Rules.Legal allows and returns exactly Rules.result (closed form), for every board size >= 1, every board and every move in Z x Z x type x Option(List Z); crash unreachable; stack order preserved. Tie: every well-formed move of the size plus an ill-formed stream on sampled reachable/constructed positions through both implementation and model, diffed; on divergence the Lean rules predicate is evaluated on the implementation's output. Also run inside cross-operation sessions (one interpreter, every public position operation interleaved on objects of all sizes derived from one another; DESIGN 10.8). Towers of 17-40 stones, drop counts around powers of two, every slide that runs off the board.",
        T + "CPython list/slice/attrs semantics are modelled, not verified. The tie samples positions (exhaustive over moves per position).",
        "5 C01",
    ),
    "C02": (
        "Lean 4 proof that the flood-fill model equals a declarative road/outcome spec + correspondence with winner()/has_road() on road-aware generated boards",
        "Theorems (Props/C02.lean): the explicit-stack flood fill with its fuel is sound and complete for the existence of an orthogonal path of road squares between opposite edges; winner = the property's outcome sentence; the road query agrees; only tops matter. Tie: winner()/has_road() vs model on reachable positions, a road-aware generator (paths, interruptions, near-misses, double roads), full boards, reserve exhaustion, both parities, sizes 3..8; thorough: all 3x3 top patterns exhaustively. Road-rich boards are kept alive and asked again with board sizes interleaved (history-dependent replays); winner()/has_road() are also judged inside cross-operation sessions (DESIGN 10.8).",
        T + "Python set/list semantics of _walk modelled. Boards are sampled except the exhaustive 3x3 tier.",
        "5 C02",
    ),
    "C03": (
        "Lean 4 proofs about the move generator and table models (completeness w.r.t. Rules.Legal, no duplicates, inclusion) + correspondence of all_moves()/tables with an independent legal-set enumeration",
        "Theorems (Props/C03.lean): every Rules.Legal move is in the generator's output, the output has no duplicates and is included in the size's table, table entries accepted by the move model are exactly the legal moves (via C01), for all sizes. Tie: all_moves() vs model, and the legal set computed in Lean from the rules over the well-formed universe plus an ill-formed stream vs what Position.move accepts. The search's reach is checked from tactical roots (stacks taller than the board, capstone stacks next to walls); all_moves() is also judged inside cross-operation sessions (DESIGN 10.8). Perft-style walks over thousands of short-lived positions (temporaries and rebound names); searches ended by the clock; an evaluator that hands out one tensor it keeps: every expanded node carries exactly the legal table moves.",
        T + "positions sampled; move universe exhaustive per position.",
        "5 C03",
    ),
    "C04": (
        "Lean 4 invariant proof by induction over arbitrary move-attempt sequences + implementation histories monitored with the Lean invariant",
        "Theorems (Props/C04.lean): Inv (conservation of stones and capstones per colour, non-negative reserves, tops-only walls/capstones, well-formed board) holds initially and is preserved by every accepted Impl.move, hence along every sequence of accepted/refused attempts; ply counts accepted moves; mover alternates from White; the first two stones are one of each colour. Unbounded in size, reserves, length. Tie/search: real histories under biased policies (sizes 3..8, custom reserves, refused attempts interleaved), every visited state evaluated by the Lean Inv; thorough: BFS closure of tiny 3x3 configurations.",
        T + "histories are sampled (closure only for tiny configurations).",
        "5 C04",
    ),
    "C05": (
        "Lean 4 frame/refinement proof on a heap-of-lists model of object identity + live-object mutation monitor over game trees of real positions",
        "Theorems (Props/C05.lean): in a heap model that mirrors which list objects move/parse/transform/decode allocate and which they only read, every pre-existing cell is unchanged by any move attempt (accepted, refused, refused part-way), for any interleaving of operations on any retained positions; the heap model refines Impl.move. Tie: every list object reachable from hundreds/thousands of retained real positions (incl. TPS-parsed boards with aliased empty squares) is compared with its first-seen snapshot after every operation. Every object of the cross-operation sessions (DESIGN 10.8) must still read what it read when it was created.",
        T + "object-identity behaviour of CPython lists is modelled; mutation through C extensions or callers reaching into position.board is out of scope.",
        "5 C05",
    ),
    "C06": (
        "Lean 4 round-trip/injectivity/mover-relativity proofs for the token model + correspondence with encode/decode/encode_batch",
        "Theorems (Props/C06.lean): decode(encode p) recovers board, side to move, size and reserves; injectivity; colour swap changes only the to-play token; tokens <= 255; layout; batch = per-row encodings zero-padded with mask exactly on the real tokens — for all well-formed positions within the vocabulary (any size). Tie: sizes 3..6, reachable/constructed, standard and custom reserves, sentinel on/off, shuffled mixed batches, swapped twins; thorough: collision search on small boards. Batches above 512 rows; inside cross-operation sessions (DESIGN 10.8) equal values encode equally, the tensor handed to decode is unchanged and decoding it twice agrees.",
        T + "torch tensor indexing/assignment modelled.",
        "5 C06",
    ),
    "C07": (
        "Lean 4 proofs that the table model enumerates exactly the well-formed moves without duplicates, for all sizes + exhaustive comparison with MOVES_BY_SIZE, encode/decode, head width",
        "Theorems (Props/C07.lean): slides n = exactly the non-empty positive sequences with sum <= n, no duplicates; table membership <-> MoveWF; no duplicates; encode/decode mutual inverses; lengths 135/496/1575/4572 and width bound by kernel evaluation. Tie: every entry of every table, every id, every move (exhaustive), PolicyValue.move_proj width. Every table move pickled in one interpreter and encoded in another (different hash seeds); tables re-read after callers modified the lists the public helpers returned. The batch encoder also takes a tuple, a generator, a map object and an iterator; the consuming interpreter runs with PYTHONOPTIMIZE=1.",
        T + "exhaustive tie; Python dict/list lookup semantics modelled.",
        "5 C07",
    ),
    "C08": (
        "Lean 4 proof that one simulation preserves a declarative tree invariant (induction over simulations) + whole-tree correspondence with the real MCTS under recorded choices/evaluator answers, and the Lean invariant evaluated on dumped real trees",
        "Theorems (Props/C08.lean): TreeInv (visit and value sums, terminal values, children one-to-one with legal moves at the cutoff holding Rules.result, renormalised priors) is preserved by every simulation for any sampler choices and evaluator answers; analyze n gives the root exactly n visits (fresh or re-used). Tie: real MCTS with uniform/random/adversarial/real-network evaluators, sizes 3..6, budgets 1..400, root noise on/off; whole tree compared; TreeInv evaluated by the driver on the implementation's tree. Roots include tactical constructed positions; searches in which the evaluator fails once and the caller resumes the tree. The same tree searched again with the budget it has already used up; MCTS.print_tree called between search phases.",
        T + "torch.multinomial/Dirichlet are oracles (recorded); float32 prior renormalisation compared to 2e-6; wall-clock time limits not covered.",
        "5 C08",
    ),
    "C09": (
        "Lean 4 proofs about the solver-argument assembly and legality of returned moves + capture of the real solver calls at every expanded node",
        "Theorems (Props/C09.lean): the (prior, q, N, K) handed to the solver are the ones the formula names; unvisited node -> prior; weights of the formula are non-negative for any alpha above max q; every child move of an invariant-satisfying tree is legal. Tie: at every expanded node of the C08 trees the actual solve_policy arguments and result are captured and checked against the model and the C10 contract; returned moves checked legal. PARTIAL: float rounding in q and lambda is observed, not proved. Roots include tactical constructed positions; searches resumed after one evaluator failure; a tree that cannot be dumped still has its returned moves put to the rules. One engine asked about sibling variations of a game; C changed on the live engine before the distributions are read.",
        T + "floating-point evaluation of q and lambda is outside the proof (partial).",
        "5 C09, 7",
    ),
    "C10": (
        "Lean 4 / Mathlib proofs about the bisection over an ordered field (bracket, monotonicity, invariant, contract, termination of the Python variant) + exact-rational contract evaluation on the outputs of both real solvers",
        "Theorems (Props/C10.lean): the initial bracket encloses the root and lies above max q; g strictly decreasing; every iterate keeps the bracket; any returned vector has the form lambda*pi/(alpha-q) with one alpha above every q, positive weights and total within the stated slack; Python variant terminates within 32 rounds. Tie: tak_ext.solve_policy (built from the current tak.cpp) and solve_policy_python on inputs spanning the quantified domain, contract evaluated over Rat on the exact float bit patterns. PARTIAL: IEEE rounding, the sum==last_sum exit, float32 resolution are observed by the tie, not proved. Chains of closely related consecutive calls (a node as it grows), with the preceding calls kept as history in the replay. A very wide node (K=2000..4572) with a dominant move, swept over visit counts 3000..4000.",
        T + "no formal IEEE-754 semantics (partial); inputs sampled over the stated regimes.",
        "5 C10, 7",
    ),
    "C11": (
        "Lean 4 proof that the self-play loop model produces transcripts satisfying a declarative TranscriptOK for every engine oracle + scripted-engine and real-MCTS transcripts checked by the Lean predicate",
        "Theorems (Props/C11.lean): chain of legal moves from the initial position, alignment of the four lists, stopping rule, result, labels, termination — for every oracle stream satisfying what C08/C09 guarantee. Tie: scripted engines forcing each ending (roads, double road, flat win, draw, reserve exhaustion, resignation at the boundary, ply limit exactly/exceeded) plus the real MCTS; TranscriptOK evaluated by the driver on the implementation's transcripts. The recorded search probabilities of the real search are judged as stated (a distribution to 1.1e-3), also under a confident evaluator with floor priors.",
        T + "engine behaviour is an oracle constrained by C08/C09.",
        "5 C11",
    ),
    "C12": (
        "Lean 4 proofs about the batch/dedup models + exact comparison with encode_games and dedup_batch on dyadic data",
        "Theorems (Props/C12.lean): row order and content of encode_games; dense targets; labels; dedup keys in first-occurrence order, means, identity without duplicates, padding-insensitive keys. Tie: transcripts from real and synthetic games (repeats, transpositions, mixed lengths), batches with arbitrary multisets of repeats and pad widths; dyadic targets so sums are exact. Zero-extension key families (token 0 is both EMPTY and padding); Transcript objects encoded, changed in place and encoded again. Recorded probabilities that do not sum to one; large dedup batches over hundreds of distinct positions; a duplicate-free batch of 160k rows.",
        T + "torch tensor arithmetic on dyadic values is exact; empty transcripts excluded.",
        "5 C12",
    ),
    "C13": (
        "Lean 4 proofs that the TPS formatter equals an independent reference writer and that parse/format round-trip, parser soundness w.r.t. a grammar, no crash + correspondence incl. a grammar-directed malformed stream",
        "Theorems (Props/C13.lean): format = standard writer; parse(format p) = p; format(parse t) = t for canonical t; accepted text is in the grammar; no crash. Tie: format_tps on sizes 3..8; parse_tps on canonical texts from the Lean writer, lenient forms and the malformed stream; outputs canonicalised to position/IllegalTPS/crash. format_tps/parse_tps are also judged inside cross-operation sessions (format, move, format the child; DESIGN 10.8).",
        T + "Python str.split/int()/isdigit semantics modelled; leading zeros and >4300-digit numbers are an unspecified zone.",
        "5 C13",
    ),
    "C14": (
        "Lean 4 proofs of PTN move round-trip, stability of every accepted text, denotation, refusal without crash, game parsing + exhaustive move tie and decorated-game tie",
        "Theorems (Props/C14.lean): parse(format m) = m on Move8; accepted => Move8; hence stability for every string; standard-form denotation; only BadMove is raised; game parse returns tags and moves of any rendering. Tie: every move of sizes 3..8, all short strings over the PTN alphabet plus near-misses, PTN games rendered by the Lean renderer from random real games with random decoration.",
        T + "Python re semantics for the patterns used are modelled by an explicit matcher.",
        "5 C14",
    ),
    "C15": (
        "Lean 4 proofs that the eight matrices form the dihedral group and that Impl.move commutes with every symmetry + commutation squares run directly on the implementation",
        "Theorems (Props/C15.lean): group facts by kernel evaluation; bijection on every n x n grid; Impl.move (T p) (T m) = map T (Impl.move p m) for every symmetry, position and move; legality/outcome/side/ply/reserves invariant; variants list starts with the position and has each distinct image once. Tie: matrices observed through behaviour; transform_position/transform_move/symmetries vs model; transform-then-play vs play-then-transform over every move and an ill-formed stream, sizes 3..8, standard and custom reserves. Inside cross-operation sessions (DESIGN 10.8) every operation on a descendant of a transformed position is judged (transform, move, adjudicate). Half of the transform_position calls receive the symmetry as a fresh temporary array.",
        T + "numpy integer matmul on 3x3 matrices modelled.",
        "5 C15",
    ),
    "C16": (
        "Lean 4 / Mathlib proofs over the reals that padding, batching and causal suffixes cannot influence a token's activations in the transformer model + numerical correspondence of the Float instance with tiny real Transformers and direct padded-vs-alone runs",
        "Theorems (Props/C16.lean): masked keys contribute exactly zero; activations of real tokens are independent of pad content and width; rows independent; each mask-building call site yields the mask; causal prefix independence; evaluate's ranges. Tie: float64 Transformers (1–3 layers, all positional kinds, causal on/off) vs the model's Float instance to 1e-9; alone-vs-padded-batch directly on the implementation. One ModelWrapper answering 1100 times must keep giving its first answers. Float16 models with an outlier token: rows that do not contain it, alone vs in the batch. PARTIAL: floating-point noise and torch kernel selection are observed, not proved.",
        T + "torch's nn.MultiheadAttention/LayerNorm semantics are modelled and tied numerically; no IEEE semantics (partial).",
        "5 C16, 7",
    ),
    "C17": (
        "Lean 4 proofs about a request-queue/batch-worker transition system for every batching policy + real Server driven on a virtual-time event loop with traces validated against the model",
        "Theorems (Props/C17.lean): pairing (every delivered response = f(own position)), at-most-once, conservation, FIFO progress bound, byte round-trip of float32 vectors — for all executions and any batch-formation policy. Tie: the real worker_loop/Evaluate under enumerated arrival schedules (bursts around 8 and 80, trickles around 1 ms, latencies), fingerprinting fake model and a real small Transformer; traces validated by the driver. PARTIAL: real gRPC transport, protobuf, executor threads are stubbed/not modelled. Full queues of 90-260-token rows (late-game 7x7/8x8). Callers that go away (Model/ServerLeave.lean: leave marks a caller; projection onto the base system, pairing, at-most-once, stayers served, non-interference, progress, quiescence, parked-and-gone never enters): client tasks cancelled while parked / queued / gathered / during the model call, L events in the trace; served models with context lengths 96/100/97 and requests at the limit.",
        T + "asyncio.Queue FIFO semantics and the stubbed transport are trusted (partial); asyncio's cancellation semantics (a cancelled putter never enters, a cancelled waiter's request stays queued) are modelled by ServerLeave and compared by the tie on cancelled client tasks.",
        "5 C17, 7",
    ),
    "C18": (
        "Lean 4 proofs about a parent/worker/bounded-queue transition system (conservation, exactness, potential, no silent stall) + real MultiprocessSelfPlayEngine under fault scripts",
        "Theorems (Props/C18.lean): conservation of games; fault-free completion returns exactly N with nothing carried over; finite progress by a potential; if nothing but polling is enabled some worker is dead with a non-zero code, so the next poll raises; witness of the hang for exit code 0. Tie: the real engine with scripted engine factories, N x W grid, two consecutive requests, faults (factory raises, k-th evaluation raises, SIGKILL), outcome classes vs the model. PARTIAL: death inside a pipe write and OS scheduling are not modelled. Faults include a worker killed inside its engine factory (engine construction is inside the watched bound) and an idle pause between requests with the workers' timed waits compressed 100x; deaths by SIGTERM/SIGHUP/SIGSEGV/SIGABRT; evaluator failures of other exception classes (ConnectionResetError, EOFError, BrokenPipeError, TimeoutError, OSError, KeyError); requests of 5000 games; kept transcripts under a lowered descriptor limit.",
        T + "multiprocessing.Queue as a bounded FIFO with blocking put is trusted (partial).",
        "5 C18, 7",
    ),
    "C19": (
        "Lean 4 proofs of crash-prefix consistency of the save protocol over a file-system model, for every interruption point and history + real save killed at every file-system operation and resumed",
        "Theorems (Props/C19.lean): round trip; for every prefix of the save's operation list (file in flight left partial) resume yields the previous or the new snapshot, never fresh and never partial; the file-system invariant is preserved along every history of saves, crashes and resumes; serve/train mode round trip; replay window = most recent k; negation witnesses for the pinned protocol. Tie: syscall sequence of the real save abstracted (strace) and compared; the saving process killed at every operation, truncated in-flight files, real resume logic classified; bit-exact restore. PARTIAL: power-loss reordering (no fsync claimed), torch.save internals. C19_startup: resume and the mode switch compose; the real start-up sequence (load_or_init_model, serve_mode, train_mode) is run on full-precision snapshots under bf16/fp16/fp32 serving. One SavingHook object serving two runs; eleven saves around step 1 000 000, each followed by a fresh resume.",
        T + "POSIX rename/symlink atomicity, torch.save/load and yaml being mutually inverse are trusted (partial).",
        "5 C19, 7",
    ),
    "C20": (
        "Lean 4 proofs that epochs are permutations chunked into aligned batches and that the stream is a function of the seed + exact comparison with the real datasets under recorded permutations",
        "Theorems (Props/C20.lean): an epoch's batches concatenate to a permutation of the rows; batch sizes; field alignment; merged buffers mask exactly the padding; determinism, fast-forward = consuming, pickle restarts. Tie: real xformer Dataset and ReplayBufferDataset on generated files/buffers with torch.randperm recorded as the oracle; determinism/fast-forward/pickle compared across real instances. C20_interleaved: several live iterators over one dataset object, interleaved with each other and with fast-forwards, each own one epoch of the sequential stream; evaluated by the driver (check-session) on what the real iterators return. Field kinds include integers beyond 2^24/2^53 next to float32/float16 fields. Iterators abandoned half way (SessOp.close; C20_abandoned_keeps_stream), sessions compared operation by operation with Sess.run; a 72 MB file judged on batch lengths (C20_batch_lengths); the replay window as TrainingRun.train_step builds it, every row given to the model judged by catRowOK. 130 epochs drawn from one dataset object against a fast-forwarded twin.",
        T + "torch.randperm is an oracle (each recorded result is checked to be a permutation); CUDA pinning not covered. Python generator semantics (the body starts at the first next; close()/garbage collection raise GeneratorExit at the yield and run no dataset code) are modelled by Sess and compared operation by operation.",
        "5 C20",
    ),
}

# properties whose model, theorems and tie are built and integrated
LANDED = ["C%02d" % i for i in range(1, 21)]
CLAIMED = {k: PLANNED[k] for k in LANDED}

ALL = ["C%02d" % i for i in range(1, 21)]
PENDING_REASON = "check not built yet at this commit (construction in progress, see DESIGN.md section 9); not claimed until its model, theorems and tie exist"


def main():
    checks = []
    for pid, (tech, text, note, ref) in CLAIMED.items():
        checks.append(
            {
                "property_id": pid,
                "quick_cmd": "./check %s --tier quick" % pid,
                "thorough_cmd": "./check %s --tier thorough" % pid,
                "evidence_file": "evidence/%s.json" % pid,
                "replay_cmd_template": "./check %s --replay {path}" % pid,
                "engine": "lean4-model+correspondence",
                "level_claimed": {"category": "proof", "text": text, "design_ref": ref},
                "level_note": note,
                "technique": tech,
            }
        )
    man = {
        "version": 1,
        "setup_cmd": "./setup.sh",
        "hooks": {
            "guard": "NELHAGE_TAKTICIAN_PYTHON_VERIF",
            "enable": "no source hooks are needed: the harness observes /repo/python from outside (wrappers, stubs, virtual-time loop); the guard variable is set by the harness but read by nothing in /repo",
            "baseline_off_cmd": "cd /repo && /venv/bin/python -m pytest -ra -q -p no:cacheprovider --timeout=900 --continue-on-collection-errors",
            "source_commits": [],
            "add_only": True,
        },
        "engines": [
            {
                "name": "lean4-model+correspondence",
                "path": "lean/ (model, specs, theorems, native driver) + harness/ (correspondence, failing-input search)",
                "serves_properties": sorted(CLAIMED),
                "kind_free_text": "hand-written Lean 4 model with machine-checked theorems; tied to /repo by behavioural correspondence on every run",
            }
        ],
        "checks": checks,
        "notes": "See DESIGN.md. A broken proof or correspondence triggers a failing-input search on the real code; KNOWN_FINDINGS lists fixed/known defects.",
        "not_applicable": [{"property_id": p, "reason": PENDING_REASON} for p in ALL if p not in CLAIMED],
    }
    with open(os.path.join(HERE, "MANIFEST.json"), "w") as f:
        json.dump(man, f, indent=1)
        f.write("\n")


if __name__ == "__main__":
    main()

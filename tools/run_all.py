#!/usr/bin/env python3
"""Run every claimed check (quick by default) on the current /repo, in parallel, and validate evidence.
usage: tools/run_all.py [--tier quick|thorough] [-j N] [--seed S] [props…]"""
import argparse, json, os, subprocess, sys, time
from concurrent.futures import ThreadPoolExecutor

VERIF = os.path.dirname(os.path.dirname(os.path.abspath(__file__)))


def main():
    ap = argparse.ArgumentParser()
    ap.add_argument("--tier", default="quick")
    ap.add_argument("-j", type=int, default=4)
    ap.add_argument("--seed", default=None)
    ap.add_argument("props", nargs="*")
    a = ap.parse_args()
    man = json.load(open(os.path.join(VERIF, "MANIFEST.json")))
    checks = [c for c in man["checks"] if not a.props or c["property_id"] in a.props]
    env = dict(os.environ)
    if a.seed is not None:
        env["VERIF_SEED"] = a.seed

    def run(c):
        cmd = c["quick_cmd"] if a.tier == "quick" else c.get("thorough_cmd", c["quick_cmd"])
        t0 = time.time()
        r = subprocess.run(cmd, shell=True, cwd=VERIF, env=env, stdout=subprocess.PIPE, stderr=subprocess.STDOUT, text=True)
        return c["property_id"], r.returncode, time.time() - t0, r.stdout

    bad = 0
    with ThreadPoolExecutor(a.j) as ex:
        for pid, rc, dt, out in ex.map(run, checks):
            lines = [l for l in out.splitlines() if l.startswith(("VIOLATION", "KNOWN-FINDING"))]
            print("%s exit=%d %.0fs %s" % (pid, rc, dt, "; ".join(lines[:3])))
            if rc != 0:
                bad += 1
                open("/tmp/run_all_%s.log" % pid, "w").write(out)
    # validate evidence
    try:
        r = subprocess.run(
            ["python3-vt", "-c", """
import json, jsonschema, sys
s = json.load(open('/root/.vp/EVIDENCE.schema.json'))
m = json.load(open('%s/MANIFEST.json'))
jsonschema.validate(m, json.load(open('/root/.vp/MANIFEST.schema.json')))
for c in m['checks']:
    e = json.load(open('%s/' + c['evidence_file']))
    jsonschema.validate(e, s)
    cov = e['coverage']
    assert cov['obligations'] == cov['discharged'] >= 1, (c['property_id'], cov['obligations'], cov['discharged'])
print('manifest + evidence valid')
""" % (VERIF, VERIF)], stdout=subprocess.PIPE, stderr=subprocess.STDOUT, text=True)
        print(r.stdout.strip()[-800:])
    except Exception as e:
        print("validation failed to run:", e)
    return 1 if bad else 0


if __name__ == "__main__":
    sys.exit(main())

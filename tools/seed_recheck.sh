#!/bin/bash
# usage: tools/seed_recheck.sh <seed_id> [also,props]   re-run the checks against a filed seed (scratch worktree), update meta.json
id=$1; also=$2; prop=${id%%-*}
cd "$(dirname "$0")/.."
python3 tools/seed_verify.py $prop $id seeded/$id/patch.diff seeded/$id/demo.py --skip-scratch --via-worktree ${also:+--also $also} 2>&1 | grep -v WARNING | tail -4

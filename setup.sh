#!/bin/bash
# Build the framework from files on disk only (offline): Lean development, native driver, tak_ext.
set -e
here="$(cd "$(dirname "${BASH_SOURCE[0]}")" && pwd)"
cd "$here/lean"
lake build TakVerif takdriver
cd "$here"
/venv/bin/python - <<'PY'
from harness.lib import build
d, log = build.build_ext()
print("tak_ext:", d)
if d is None:
    print(log)
    raise SystemExit(1)
PY
